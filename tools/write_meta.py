#!/usr/bin/env python3
# tools/write_meta.py <Snn> key=value ... — write seeded/<Snn>/meta.json (values are plain strings;
# files_changed is taken from patch.diff)
import sys, json, re, os
sid = sys.argv[1]
d = f"/verif/seeded/{sid}"
meta = {"id": sid, "property": "C11"}
for kv in sys.argv[2:]:
    k, v = kv.split("=", 1)
    meta[k] = v
meta["files_changed"] = sorted(set(re.findall(r"^\+\+\+ b/(\S+)", open(f"{d}/patch.diff").read(), re.M)))
json.dump(meta, open(f"{d}/meta.json", "w"), indent=1, ensure_ascii=False)
print(open(f"{d}/meta.json").read()[:300])
