#!/usr/bin/env python3
"""Snapshot PRQL programs from /repo into /verif/corpus (run once, by hand; the
snapshot is committed so that checks do not depend on the repo's test files)."""
import os, re, sys, hashlib, json, glob
REPO = sys.argv[1] if len(sys.argv) > 1 else "/repo"
OUT = os.path.join(os.path.dirname(os.path.abspath(__file__)), "..", "corpus")
os.makedirs(OUT, exist_ok=True)
progs = []  # (origin, text)

for f in sorted(glob.glob(f"{REPO}/prqlc/prqlc/tests/integration/queries/*.prql")):
    progs.append(("query:" + os.path.basename(f), open(f).read()))

# book / website / readme examples
mds = sorted(glob.glob(f"{REPO}/web/book/src/**/*.md", recursive=True)) + \
      sorted(glob.glob(f"{REPO}/web/website/content/**/*.md", recursive=True)) + \
      sorted(glob.glob(f"{REPO}/web/website/data/**/*.yaml", recursive=True)) + \
      [f"{REPO}/README.md", f"{REPO}/prqlc/prqlc/README.md"]
for f in mds:
    if not os.path.exists(f):
        continue
    s = open(f).read()
    for m in re.finditer(r"```prql[^\n]*\n(.*?)```", s, re.S):
        progs.append(("md:" + os.path.relpath(f, REPO), m.group(1)))

# inline programs in Rust tests and sources: r"...", r#"..."#, r###"..."###
rs = sorted(glob.glob(f"{REPO}/prqlc/prqlc/tests/integration/*.rs")) + \
     sorted(glob.glob(f"{REPO}/prqlc/prqlc/src/**/*.rs", recursive=True)) + \
     sorted(glob.glob(f"{REPO}/prqlc/prqlc-parser/src/**/*.rs", recursive=True))
for f in rs:
    s = open(f).read()
    for m in re.finditer(r'r(#{0,3})"(.*?)"\1', s, re.S):
        t = m.group(2)
        if len(t) > 4000 or len(t) < 6:
            continue
        if re.search(r"\b(from|let|derive|select|func|module|prql|s\"|f\")", t) is None:
            continue
        # skip SQL snapshots
        if re.match(r"\s*(SELECT|WITH)\b", t):
            continue
        progs.append(("rs:" + os.path.relpath(f, REPO), t))

seen = set()
index = []
n = 0
for origin, text in progs:
    # dedent common leading whitespace
    lines = text.split("\n")
    ind = [len(l) - len(l.lstrip()) for l in lines if l.strip()]
    d = min(ind) if ind else 0
    text = "\n".join(l[d:] if len(l) >= d else l for l in lines).strip("\n") + "\n"
    h = hashlib.sha1(text.encode()).hexdigest()[:12]
    if h in seen:
        continue
    seen.add(h)
    name = f"p{n:04d}.prql"
    open(os.path.join(OUT, name), "w").write(text)
    index.append({"file": name, "origin": origin})
    n += 1
json.dump(index, open(os.path.join(OUT, "INDEX.json"), "w"), indent=0)
print(n, "programs")
