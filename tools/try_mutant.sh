#!/bin/sh
# tools/try_mutant.sh <patch.diff> [tier] — apply a patch to /repo, run the C11 check against it
# (evidence and replays go to a scratch dir, not /verif/evidence), then undo the patch.
# Prints one summary line: <name> exit=<code> violations=<n> wall=<s>
p="$1"; tier="${2:-quick}"
name="$(basename "$(dirname "$p")")-$(basename "$p" .diff)"
out="/tmp/mut/$name"; rm -rf "$out"; mkdir -p "$out"
cd /repo || exit 2
git diff --quiet || { echo "$name: /repo has uncommitted changes, refusing" >&2; exit 2; }
git apply "$p" || { echo "$name: patch does not apply" >&2; exit 2; }
t0=$(date +%s)
( cd /verif && ./check C11 --tier "$tier" --evidence "$out/C11.json" --replays "$out/replays" ) >"$out/log" 2>&1
code=$?
t1=$(date +%s)
git -C /repo checkout -- . && git -C /repo clean -fdq -- prqlc/prqlc/src prqlc/prqlc-parser/src
n=$(grep -c '^VIOLATION' "$out/log")
echo "$name exit=$code violations=$n wall=$((t1-t0))s"
grep -E '^violation cluster|^HARNESS' "$out/log" | cut -c1-220 | sed 's/^/    /'
