#!/bin/sh
# tools/try_mutant_scratch.sh <patch.diff> [tier] — like try_mutant.sh, but against a scratch
# worktree of /repo (/tmp/mutrepo) and a second build of the simulator (/tmp/mutsim, same
# sources through a symlink), so that /repo stays untouched while long runs use it.
# Development aid only; the results recorded in seeded/*/meta.json come from try_mutant.sh.
p="$1"; tier="${2:-quick}"
name="$(basename "$(dirname "$p")")-$(basename "$p" .diff)"
out="/tmp/mut/$name"; rm -rf "$out"; mkdir -p "$out"
cd /tmp/mutrepo || exit 2
git checkout -q --detach "$(git -C /repo rev-parse HEAD)" || exit 2
git diff --quiet || { echo "$name: /tmp/mutrepo has uncommitted changes, refusing" >&2; exit 2; }
git apply "$p" || { echo "$name: patch does not apply" >&2; exit 2; }
t0=$(date +%s)
( cd /tmp/mutsim && CARGO_NET_OFFLINE=true RUSTC_WRAPPER=/tmp/mutsim/rustc-wrap.sh cargo build --offline 2>"$out/build.log" ) || { tail -20 "$out/build.log"; git checkout -- .; exit 2; }
/verif/sim/build-cli.sh /tmp/mutrepo /tmp/mutsim/target/cli >"$out/build-cli.log" 2>&1 || { tail -20 "$out/build-cli.log"; git checkout -- .; exit 2; }
( cd /verif && VERIF_ROOT=/verif /tmp/mutsim/target/debug/sim run --tier "$tier" --evidence "$out/C11.json" --replays "$out/replays" ) >"$out/log" 2>&1
code=$?
t1=$(date +%s)
git -C /tmp/mutrepo checkout -- . && git -C /tmp/mutrepo clean -fdq -- prqlc/prqlc/src prqlc/prqlc-parser/src
n=$(grep -c '^VIOLATION' "$out/log")
echo "$name exit=$code violations=$n wall=$((t1-t0))s"
grep -E '^violation cluster|^HARNESS' "$out/log" | cut -c1-220 | sed 's/^/    /'
