#!/bin/sh
# tools/keep_seeded.sh <worktree> <Snn> — copy a confirmed sub-agent change into /verif/seeded/<Snn>
# (patch.diff, demo without build output, notes.md); meta.json is written by hand afterwards.
wt="$1"; id="$2"
d="/verif/seeded/$id"; mkdir -p "$d" || exit 2
cp "$wt/_out/patch.diff" "$d/patch.diff"
cp "$wt/_out/notes.md" "$d/notes.md" 2>/dev/null
rsync -a --exclude target --exclude '*.log' "$wt/_out/demo/" "$d/demo/"
[ -d "$wt/_out/proj" ] && rsync -a "$wt/_out/proj/" "$d/demo/proj/"
du -sh "$d"
