#!/bin/sh
# tools/confirm_seeded.sh <worktree> <demo command (run inside <worktree>/_out/demo)>
# Independent confirmation of a sub-agent's change: the patch is what the worktree holds,
# the test suite passes with it, the demonstration fails with it and passes without it.
wt="$1"; shift
cd "$wt" || exit 2
git apply -R --check _out/patch.diff || { echo "patch does not match worktree"; exit 2; }
git reset -q; git checkout -q -- . ; git clean -fdq -- prqlc; git apply _out/patch.diff || { echo "patch does not apply to HEAD"; exit 2; }
echo "== nextest with the change"
CARGO_BUILD_JOBS=8 cargo nextest run --workspace --no-fail-fast --test-threads 8 --offline 2>&1 | grep -E "Summary|FAIL|error(\[|:)" | head -10
echo "== demo with the change (expect failure)"
( cd _out/demo && sh -c "$*" ) >/tmp/wt/demo_with.log 2>&1; echo "exit=$?"; tail -5 /tmp/wt/demo_with.log
git apply -R _out/patch.diff
echo "== demo without the change (expect success)"
( cd _out/demo && sh -c "$*" ) >/tmp/wt/demo_without.log 2>&1; echo "exit=$?"; tail -3 /tmp/wt/demo_without.log
git apply _out/patch.diff
