#!/bin/sh
# tools/process_seeded.sh <worktree> <Snn> [tier] — confirm a sub-agent's change independently,
# store it under seeded/<Snn>, run the check against it in the scratch worktree, remove the
# author's worktree. Everything goes to /tmp/mut/<Snn>.proc.log.
wt="$1"; id="$2"; tier="${3:-quick}"
log="/tmp/mut/$id.proc.log"
{
  echo "#### $id from $wt"
  demo="sh ./run.sh"; head -1 "$wt/_out/demo/run.sh" | grep -q bash && demo="bash ./run.sh"
  /verif/tools/confirm_seeded.sh "$wt" "$demo" 2>&1 | grep -E "Summary|exit=|does not|^=="
  /verif/tools/keep_seeded.sh "$wt" "$id"
  while pgrep -f try_mutant_scratch.sh >/dev/null; do sleep 5; done
  /verif/tools/try_mutant_scratch.sh "/verif/seeded/$id/patch.diff" "$tier"
  git -C /repo worktree remove --force "$wt"
  echo "#### done $id"
} > "$log" 2>&1
