#!/bin/sh
# tools/regress.sh [out.tsv] — run the quick tier against every stored breaking change
# (seeded/S*/patch.diff, mutants/*.diff, mutants/negative/*) in the scratch worktree and
# write one line per patch: name, exit code, violation lines, clusters, executions, wall.
out="${1:-/tmp/regress.tsv}"; : > "$out"
for p in /verif/seeded/S*/patch.diff /verif/mutants/*.diff /verif/mutants/negative/*/patch.diff /verif/mutants/negative/*.diff; do
  [ -f "$p" ] || continue
  name="$(basename "$(dirname "$p")")-$(basename "$p" .diff)"
  line="$(/verif/tools/try_mutant_scratch.sh "$p" 2>&1)"
  head1="$(printf '%s\n' "$line" | head -1)"
  clusters="$(printf '%s\n' "$line" | grep -c 'violation cluster')"
  execs="$(printf '%s\n' "$line" | grep 'violation cluster' | sed 's/.*: \([0-9]*\) executions.*/\1/' | paste -sd+ | bc 2>/dev/null)"
  strata="$(printf '%s\n' "$line" | grep 'violation cluster' | sed 's/.*stratum \([ABC]\) .*/\1/' | sort -u | paste -sd, )"
  printf '%s\t%s\tclusters=%s\texecutions=%s\tstrata=%s\n' "$name" "$head1" "$clusters" "${execs:-0}" "$strata" >> "$out"
done
echo done >> "$out"
