#!/bin/sh
# sim/build-cli.sh [repo] [target-dir] — what operation `cli` runs: the repository's own `prqlc`
# command-line binary, built from the working tree with the shipped configuration (hooks
# off, no instrumentation; optimisation level 1 so that a run costs tens of milliseconds), and
# the LD_PRELOAD library that puts its hash seeds and directory enumeration behind seams.
repo="${1:-/repo}"
here="$(cd "$(dirname "$0")" && pwd)"
out="${2:-$here/target/cli}"
mkdir -p "$out" || exit 2
( cd "$repo" && env -u RUSTC_WRAPPER -u RUSTFLAGS CARGO_NET_OFFLINE=true CARGO_TARGET_DIR="$out" \
    CARGO_PROFILE_DEV_OPT_LEVEL=1 CARGO_PROFILE_DEV_DEBUG=0 \
    cargo build --offline -p prqlc --bin prqlc ) || exit 2
cc -shared -fPIC -O1 -o "$out/libverif_preload.so" "$here/preload/verif_preload.c" -ldl || exit 2
