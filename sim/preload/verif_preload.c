/* LD_PRELOAD seams for the real `prqlc` command-line binary (operation `cli` of the simulator).
 *
 *  getrandom   std resolves it weakly on purpose; here it returns a stream that is a pure
 *              function of VERIF_CLI_HASH_BASE and the call counter, so every std RandomState
 *              (hence the iteration order of every HashMap/HashSet of the process, the map
 *              cli::read_files collects the project into included) is decided by the simulator.
 *  readdir64   the order in which a directory's entries are enumerated (what walkdir, and so
 *  readdir     clio's `files()`, sees) is decided by VERIF_CLI_READDIR_SEED: 0 = sorted by name
 *              (the reference context), otherwise a seeded permutation.
 * Nothing else is touched.  Built by setup.sh / check with the system C compiler. */
#define _GNU_SOURCE
#include <dirent.h>
#include <dlfcn.h>
#include <stdint.h>
#include <stdlib.h>
#include <string.h>
#include <sys/types.h>

static uint64_t splitmix(uint64_t *s) {
    uint64_t z = (*s += 0x9E3779B97F4A7C15ull);
    z = (z ^ (z >> 30)) * 0xBF58476D1CE4E5B9ull;
    z = (z ^ (z >> 27)) * 0x94D049BB133111EBull;
    return z ^ (z >> 31);
}

static uint64_t env_u64(const char *name) {
    const char *v = getenv(name);
    return v ? strtoull(v, NULL, 10) : 0;
}

static uint64_t gr_state;
static int gr_init;

ssize_t getrandom(void *buf, size_t len, unsigned int flags) {
    (void)flags;
    if (!gr_init) {
        gr_state = env_u64("VERIF_CLI_HASH_BASE") * 0xD1342543DE82EF95ull + 0x1234567;
        gr_init = 1;
    }
    unsigned char *p = buf;
    size_t i = 0;
    while (i < len) {
        uint64_t w = splitmix(&gr_state);
        for (int k = 0; k < 8 && i < len; k++, i++) p[i] = (unsigned char)(w >> (8 * k));
    }
    return (ssize_t)len;
}

#define MAXDIRS 64
struct slot {
    DIR *dir;
    struct dirent64 *ents;
    size_t n, next;
};
static struct slot slots[MAXDIRS];

static int cmp_name(const void *a, const void *b) {
    return strcmp(((const struct dirent64 *)a)->d_name, ((const struct dirent64 *)b)->d_name);
}

static struct slot *slot_for(DIR *d, int create) {
    struct slot *free_slot = NULL;
    for (int i = 0; i < MAXDIRS; i++) {
        if (slots[i].dir == d) return &slots[i];
        if (!slots[i].dir && !free_slot) free_slot = &slots[i];
    }
    if (!create || !free_slot) return NULL;
    static struct dirent64 *(*real)(DIR *);
    if (!real) real = dlsym(RTLD_NEXT, "readdir64");
    size_t cap = 16, n = 0;
    struct dirent64 *v = malloc(cap * sizeof *v);
    struct dirent64 *e;
    while ((e = real(d)) != NULL) {
        if (n == cap) v = realloc(v, (cap *= 2) * sizeof *v);
        memcpy(&v[n++], e, sizeof *e);
    }
    qsort(v, n, sizeof *v, cmp_name);
    uint64_t seed = env_u64("VERIF_CLI_READDIR_SEED");
    if (seed) {
        /* the permutation of a directory depends on the seed and on its (sorted) content only */
        uint64_t s = seed;
        for (size_t i = 0; i < n; i++)
            for (const char *c = v[i].d_name; *c; c++) s = s * 1099511628211ull + (unsigned char)*c;
        for (size_t i = n; i > 1; i--) {
            size_t j = (size_t)(splitmix(&s) % i);
            struct dirent64 t = v[i - 1];
            v[i - 1] = v[j];
            v[j] = t;
        }
    }
    free_slot->dir = d;
    free_slot->ents = v;
    free_slot->n = n;
    free_slot->next = 0;
    return free_slot;
}

struct dirent64 *readdir64(DIR *d) {
    struct slot *s = slot_for(d, 1);
    if (!s) {
        static struct dirent64 *(*real)(DIR *);
        if (!real) real = dlsym(RTLD_NEXT, "readdir64");
        return real(d);
    }
    if (s->next >= s->n) return NULL;
    return &s->ents[s->next++];
}

struct dirent *readdir(DIR *d) {
    /* on x86-64 Linux struct dirent and struct dirent64 have one layout */
    return (struct dirent *)readdir64(d);
}

int closedir(DIR *d) {
    static int (*real)(DIR *);
    if (!real) real = dlsym(RTLD_NEXT, "closedir");
    struct slot *s = slot_for(d, 0);
    if (s) {
        free(s->ents);
        memset(s, 0, sizeof *s);
    }
    return real(d);
}
