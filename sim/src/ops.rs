//! Operations (calls through prqlc's public API) and their observations.

use std::path::PathBuf;
use std::str::FromStr;

use serde::{Deserialize, Serialize};

#[derive(Serialize, Deserialize, Clone, Debug, PartialEq, Eq, Hash)]
pub struct Opts {
    pub target: String,
    pub format: bool,
    pub sig: bool,
    pub ansi: bool,
    /// `Options::color` (deprecated, unused by the library today)
    #[serde(default)]
    pub color: bool,
}

impl Opts {
    pub fn plain(target: &str) -> Self {
        Opts {
            target: target.to_string(),
            format: false,
            sig: false,
            ansi: false,
            color: false,
        }
    }
    fn to_options(&self) -> Result<prqlc::Options, prqlc::ErrorMessages> {
        let target = prqlc::Target::from_str(&self.target).map_err(prqlc::ErrorMessages::from)?;
        Ok(prqlc::Options {
            format: self.format,
            target,
            signature_comment: self.sig,
            color: self.color,
            display: if self.ansi {
                prqlc::DisplayOptions::AnsiColor
            } else {
                prqlc::DisplayOptions::Plain
            },
        })
    }
}

#[derive(Serialize, Deserialize, Clone, Debug, PartialEq, Eq, Hash)]
#[serde(tag = "op")]
pub enum Op {
    /// `prqlc::compile`
    Compile { src: String, opts: Opts },
    /// `prql_to_pl` → `pl_to_rq` → `rq_to_sql`; observes PL (canonical), RQ and SQL
    Staged { src: String, opts: Opts },
    /// the same, but every stage boundary goes through `prqlc::json`. With `between`, the host
    /// serves another request on this thread between writing a document and reading it back:
    /// that program's PL and RQ documents are written (and dropped) in between. Must give
    /// exactly what the operation gives without `between`.
    StagedJson {
        src: String,
        #[serde(default, skip_serializing_if = "Option::is_none")]
        between: Option<String>,
        opts: Opts,
    },
    /// staged compilation the way a host with other work does it: between `pl_to_rq` and
    /// `rq_to_sql` of `src` the same thread parses and lowers an unrelated program
    /// (`between`, result discarded). Must give exactly what `Staged { src, opts }` gives.
    StagedSplit {
        src: String,
        between: String,
        via_json: bool,
        opts: Opts,
    },
    /// The staged API the way a language binding uses it, with the RQ *document* altered
    /// between the stages (written by hand, by another tool or by another version): source →
    /// PL → RQ → JSON → one seeded edit of the JSON → `json::to_rq` → `rq_to_sql`. The edit is
    /// a function of `edit` and the document, so the reference context makes the same one.
    StagedRqEdit { src: String, edit: u32, opts: Opts },
    /// `prql_to_pl` → `pl_to_prql`
    Fmt { src: String },
    /// `prql_to_pl` → `pl_to_rq` → `json::from_rq`
    Rq { src: String },
    /// `prql_to_tokens`
    Tokens { src: String },
    /// The C binding (prqlc/bindings/prqlc-c): `compile`, or `prql_to_pl` → `pl_to_rq` →
    /// `rq_to_sql` with the JSON documents handed from one `extern "C"` call to the next, every
    /// result released with `result_destroy` — what the PHP, .NET, Java-JNI-style hosts do.
    CApi { src: String, staged: bool, opts: Opts },
    /// an editor's buffer: a one-file SourceTree is parsed, its text is replaced *in place*
    /// (`String::replace_range`, same allocation) by `src`, and parsed again; observes the
    /// second parse (`prql_to_pl_tree` + `pl_to_prql`). Must equal the same with `before`
    /// = `src`.
    EditInPlace { before: String, src: String },
    /// multi-file project, the way `prqlc compile <dir>` does it
    Project {
        files: Vec<(String, String)>,
        /// enumeration order handed to `SourceTree::new`
        order: Vec<usize>,
        /// pass the files through a std `HashMap` first, like the CLI
        via_hashmap: bool,
        /// indices of files that are handed over a second time (same path, same content),
        /// as an editor integration re-inserting a file does
        #[serde(default, skip_serializing_if = "Vec::is_empty")]
        dups: Vec<usize>,
        /// build the tree with `SourceTree::new` for the first file and `insert` for the rest
        #[serde(default, skip_serializing_if = "std::ops::Not::not")]
        via_insert: bool,
        /// the tree is a `clone()` of a one-file ancestor plus insertions, and a *sibling*
        /// (same ancestor, one more file inserted first) is compiled before it — what an
        /// editor integration that keeps several variants of a project around does
        #[serde(default, skip_serializing_if = "std::ops::Not::not")]
        sibling_first: bool,
        /// file paths are absolute under this prefix and the root is relative (`project`)
        #[serde(default, skip_serializing_if = "Option::is_none")]
        abs_prefix: Option<String>,
        main_path: Vec<String>,
        opts: Opts,
    },
    /// The real `prqlc` command-line binary (built from /repo's working tree, hooks off, no
    /// instrumentation) run as a process of its own on a directory the operation writes out:
    /// `prqlc <args> project [- [main_path]]` with the working directory above `project`.
    /// Its hash seeds and the order in which its directories are enumerated are behind
    /// LD_PRELOAD seams (sim/preload/verif_preload.c): `hash_base` decides every std
    /// `RandomState` of the process, `readdir_seed` the order `readdir` yields (0 = sorted).
    /// Observes exit status, stdout and stderr; with `rewrite` (`prqlc fmt`, which rewrites
    /// the files in place) also the content of every file afterwards.
    Cli {
        files: Vec<(String, String)>,
        args: Vec<String>,
        #[serde(default, skip_serializing_if = "Option::is_none")]
        main_path: Option<String>,
        #[serde(default, skip_serializing_if = "std::ops::Not::not")]
        rewrite: bool,
        /// `--debug-log <file>`: the CLI installs its `MessageLogger` and brackets the
        /// compilation with a debug session; the log file itself is not compared
        #[serde(default, skip_serializing_if = "std::ops::Not::not")]
        debug_log: bool,
        /// how the (first) file reaches the tool: 0 = the directory is named, 1 = the file
        /// itself is named (`project/q.prql`), 2 = its text is piped to standard input (`-`)
        #[serde(default, skip_serializing_if = "is_zero8")]
        input: u8,
        #[serde(default)]
        hash_base: u64,
        #[serde(default)]
        readdir_seed: u64,
    },
    /// set (`Some`) or unset (`None`) PRQL_VERSION_OVERRIDE; only at quiescent points
    SetEnv { value: Option<String> },
    /// change the process's working directory (a host may); only at quiescent points
    SetCwd { dir: String },
}

fn is_zero8(x: &u8) -> bool {
    *x == 0
}

impl Op {
    pub fn kind(&self) -> &'static str {
        match self {
            Op::Compile { .. } => "compile",
            Op::Staged { .. } => "staged",
            Op::StagedJson { .. } => "staged_json",
            Op::StagedSplit { .. } => "staged_split",
            Op::StagedRqEdit { .. } => "staged_rq_edit",
            Op::Fmt { .. } => "fmt",
            Op::Rq { .. } => "rq",
            Op::Tokens { .. } => "tokens",
            Op::CApi { .. } => "c_api",
            Op::EditInPlace { .. } => "edit_in_place",
            Op::Project { .. } => "project",
            Op::Cli { .. } => "cli",
            Op::SetEnv { .. } => "set_env",
            Op::SetCwd { .. } => "set_cwd",
        }
    }
    /// True if the observation depends on PRQL_VERSION_OVERRIDE.
    pub fn env_sensitive(&self) -> bool {
        // signature comment prints the version; `prql version:"…"` headers compare against it
        true
    }
    pub fn src_mut(&mut self) -> Option<&mut String> {
        match self {
            Op::Compile { src, .. }
            | Op::Staged { src, .. }
            | Op::StagedJson { src, .. }
            | Op::StagedSplit { src, .. }
            | Op::StagedRqEdit { src, .. }
            | Op::Fmt { src }
            | Op::Rq { src }
            | Op::EditInPlace { src, .. }
            | Op::CApi { src, .. }
            | Op::Tokens { src } => Some(src),
            _ => None,
        }
    }
    pub fn src(&self) -> Option<&str> {
        match self {
            Op::Compile { src, .. }
            | Op::Staged { src, .. }
            | Op::StagedJson { src, .. }
            | Op::StagedSplit { src, .. }
            | Op::StagedRqEdit { src, .. }
            | Op::Fmt { src }
            | Op::Rq { src }
            | Op::EditInPlace { src, .. }
            | Op::CApi { src, .. }
            | Op::Tokens { src } => Some(src),
            _ => None,
        }
    }
    pub fn opts_mut(&mut self) -> Option<&mut Opts> {
        match self {
            Op::Compile { opts, .. }
            | Op::CApi { opts, .. }
            | Op::Staged { opts, .. }
            | Op::StagedJson { opts, .. }
            | Op::StagedRqEdit { opts, .. }
            | Op::StagedSplit { opts, .. }
            | Op::Project { opts, .. } => Some(opts),
            _ => None,
        }
    }
}

#[derive(Serialize, Deserialize, Clone, Debug, PartialEq, Eq)]
pub struct Obs {
    /// ok | err | panic | noreturn
    pub class: String,
    pub text: String,
}

impl Obs {
    pub fn ok(text: String) -> Self {
        Obs {
            class: "ok".into(),
            text,
        }
    }
    pub fn err(text: String) -> Self {
        Obs {
            class: "err".into(),
            text,
        }
    }
    pub fn panic(text: String) -> Self {
        Obs {
            class: "panic".into(),
            text,
        }
    }
    pub fn noreturn(text: String) -> Self {
        Obs {
            class: "noreturn".into(),
            text,
        }
    }
    /// Equality used by the oracle: panic messages are not compared.
    pub fn same(&self, other: &Obs) -> bool {
        if self.class != other.class {
            return false;
        }
        if self.class == "panic" || self.class == "noreturn" {
            return true;
        }
        self.text == other.text
    }
}

fn canonical(v: &serde_json::Value, out: &mut String) {
    use serde_json::Value::*;
    match v {
        Object(m) => {
            let mut keys: Vec<&std::string::String> = m.keys().collect();
            keys.sort();
            out.push('{');
            for (i, k) in keys.iter().enumerate() {
                if i > 0 {
                    out.push(',');
                }
                out.push_str(&serde_json::to_string(k).unwrap());
                out.push(':');
                canonical(&m[*k], out);
            }
            out.push('}');
        }
        Array(a) => {
            out.push('[');
            for (i, x) in a.iter().enumerate() {
                if i > 0 {
                    out.push(',');
                }
                canonical(x, out);
            }
            out.push(']');
        }
        other => out.push_str(&other.to_string()),
    }
}

/// PL holds HashMap fields whose serialisation order the property does not
/// claim; PL is compared as canonical JSON (object keys sorted).
pub fn canonical_json(text: &str) -> String {
    match serde_json::from_str::<serde_json::Value>(text) {
        Ok(v) => {
            let mut s = String::with_capacity(text.len());
            canonical(&v, &mut s);
            s
        }
        Err(_) => text.to_string(),
    }
}

fn err_json(e: &prqlc::ErrorMessages) -> String {
    e.to_json()
}

/// Error text with numeric source ids replaced by the path they denote in the
/// caller's SourceTree (ids are an index into the caller's enumeration).
fn err_json_tree(e: &prqlc::ErrorMessages, tree: &prqlc::SourceTree) -> String {
    let mut out = Vec::new();
    for m in &e.inner {
        let span = m.span.map(|s| {
            let p = tree
                .get_path(s.source_id)
                .map(|p| p.to_string_lossy().to_string())
                .unwrap_or_else(|| format!("<unknown source {}>", s.source_id));
            format!("{}:{}-{}", p, s.start, s.end)
        });
        out.push(serde_json::json!({
            "kind": serde_json::to_value(&m.kind).unwrap(),
            "code": m.code,
            "reason": m.reason,
            "hints": m.hints,
            "span": span,
            "display": m.display,
            "location": m.location.as_ref().map(|l| (l.start, l.end)),
        }));
    }
    serde_json::to_string(&out).unwrap()
}

fn rewrite_spans(v: &mut serde_json::Value, tree: &prqlc::SourceTree) {
    use serde_json::Value::*;
    match v {
        Object(m) => {
            for (k, x) in m.iter_mut() {
                if k == "span" {
                    if let serde_json::Value::String(s) = x {
                        if let Some((id, rest)) = s.split_once(':') {
                            if let Ok(id) = id.parse::<u16>() {
                                let p = tree
                                    .get_path(id)
                                    .map(|p| p.to_string_lossy().to_string())
                                    .unwrap_or_else(|| format!("<unknown source {id}>"));
                                *s = format!("{p}:{rest}");
                            }
                        }
                        continue;
                    }
                }
                rewrite_spans(x, tree);
            }
        }
        Array(a) => {
            for x in a {
                rewrite_spans(x, tree);
            }
        }
        _ => {}
    }
}

fn rq_text_tree(rq: &prqlc::ir::rq::RelationalQuery, tree: &prqlc::SourceTree) -> String {
    let raw = prqlc::json::from_rq(rq).unwrap_or_else(|e| format!("<from_rq failed: {e}>"));
    match serde_json::from_str::<serde_json::Value>(&raw) {
        Ok(mut v) => {
            rewrite_spans(&mut v, tree);
            // key order of RQ structs is declaration order either way; keep it
            serde_json::to_string(&v).unwrap()
        }
        Err(_) => raw,
    }
}

fn staged(src: &str, between: Option<&String>, via_json: bool, opts: &Opts) -> Obs {
    let o = match opts.to_options() {
        Ok(o) => o,
        Err(e) => return Obs::err(format!("OPTS {}", err_json(&e))),
    };
    let pl = match prqlc::prql_to_pl(src) {
        Ok(pl) => pl,
        Err(e) => return Obs::err(format!("PLERR {}", err_json(&e))),
    };
    let mut text = String::new();
    match prqlc::json::from_pl(&pl) {
        Ok(j) => {
            text.push_str("PL ");
            text.push_str(&canonical_json(&j));
        }
        Err(e) => return Obs::err(format!("PLJSONERR {}", err_json(&e))),
    }
    let rq = match prqlc::pl_to_rq(pl) {
        Ok(rq) => rq,
        Err(e) => return Obs::err(format!("{text}\nRQERR {}", err_json(&e))),
    };
    text.push_str("\nRQ ");
    text.push_str(&prqlc::json::from_rq(&rq).unwrap_or_default());
    let rq = if let Some(b) = between {
        // the host does something else on this thread before it comes back to this query
        // (its result, error or panic is the host's business, not this query's)
        crate::seams::set_in_between(true);
        let _ = std::panic::catch_unwind(std::panic::AssertUnwindSafe(|| {
            let _ = prqlc::prql_to_pl(b).and_then(prqlc::pl_to_rq);
        }));
        crate::seams::set_in_between(false);
        if via_json {
            match prqlc::json::from_rq(&rq).and_then(|j| prqlc::json::to_rq(&j)) {
                Ok(rq) => rq,
                Err(e) => return Obs::err(format!("{text}\nRQJSONERR {}", err_json(&e))),
            }
        } else {
            rq
        }
    } else {
        rq
    };
    match prqlc::rq_to_sql(rq, &o) {
        Ok(sql) => Obs::ok(format!("{text}\nSQL {sql}")),
        Err(e) => Obs::err(format!("{text}\nSQLERR {}", err_json(&e))),
    }
}

/// A file name of a plan as a path: `%XX` stands for the raw byte XX, so that plans (JSON
/// text) can name files whose names are not valid UTF-8 — legal on this platform and
/// accepted by `SourceTree::new`.
fn decode_path(s: &str) -> PathBuf {
    if !s.contains('%') {
        return PathBuf::from(s);
    }
    use std::os::unix::ffi::OsStringExt;
    let b = s.as_bytes();
    let mut out = Vec::with_capacity(b.len());
    let mut i = 0;
    while i < b.len() {
        if b[i] == b'%' && i + 3 <= b.len() && s.is_char_boundary(i + 1) && s.is_char_boundary(i + 3) {
            if let Ok(v) = u8::from_str_radix(&s[i + 1..i + 3], 16) {
                out.push(v);
                i += 3;
                continue;
            }
        }
        out.push(b[i]);
        i += 1;
    }
    PathBuf::from(std::ffi::OsString::from_vec(out))
}

/// One edit of an RQ document, chosen by `edit`: an operator name without its `std.`
/// prefix, an operator name that names a module, two table declarations swapped, `prefer_cte`
/// flipped everywhere, a column name changed, or only the layout of the text.
fn edit_rq_json(doc: &str, edit: u32) -> String {
    use serde_json::Value;
    let mut v: Value = match serde_json::from_str(doc) {
        Ok(v) => v,
        Err(_) => return doc.to_string(),
    };
    fn operators<'a>(v: &'a mut Value, out: &mut Vec<&'a mut Value>) {
        match v {
            Value::Object(m) => {
                for (k, x) in m.iter_mut() {
                    if k == "Operator" && x.get("name").is_some() {
                        out.push(x);
                    } else {
                        operators(x, out);
                    }
                }
            }
            Value::Array(a) => {
                for x in a {
                    operators(x, out);
                }
            }
            _ => {}
        }
    }
    fn flip_cte(v: &mut Value) {
        match v {
            Value::Object(m) => {
                for (k, x) in m.iter_mut() {
                    if k == "prefer_cte" {
                        if let Value::Bool(b) = x {
                            *b = !*b;
                        }
                    } else {
                        flip_cte(x);
                    }
                }
            }
            Value::Array(a) => a.iter_mut().for_each(flip_cte),
            _ => {}
        }
    }
    let which = (edit / 8) as usize;
    match edit % 8 {
        0 | 1 => {
            let mut ops = Vec::new();
            operators(&mut v, &mut ops);
            if !ops.is_empty() {
                let i = which % ops.len();
                if let Some(Value::String(name)) = ops[i].get_mut("name") {
                    if edit % 8 == 0 {
                        *name = name.trim_start_matches("std.").to_string();
                    } else {
                        *name = ["std.math", "std.text", "std.date", "std"][which % 4].to_string();
                    }
                }
            }
        }
        2 => {
            if let Some(Value::Array(t)) = v.get_mut("tables") {
                if t.len() >= 2 {
                    let i = which % (t.len() - 1);
                    t.swap(i, i + 1);
                }
            }
        }
        3 => flip_cte(&mut v),
        4 => return serde_json::to_string_pretty(&v).unwrap_or_else(|_| doc.to_string()),
        _ => {}
    }
    serde_json::to_string(&v).unwrap_or_else(|_| doc.to_string())
}

fn do_op(op: &Op) -> Obs {
    match op {
        Op::Compile { src, opts } => {
            let o = match opts.to_options() {
                Ok(o) => o,
                Err(e) => return Obs::err(format!("OPTS {}", err_json(&e))),
            };
            match prqlc::compile(src, &o) {
                Ok(sql) => Obs::ok(sql),
                Err(e) => Obs::err(err_json(&e)),
            }
        }
        Op::Staged { src, opts } => staged(src, None, false, opts),
        Op::StagedSplit {
            src,
            between,
            via_json,
            opts,
        } => staged(src, Some(between), *via_json, opts),
        Op::StagedJson { src, between, opts } => {
            let o = match opts.to_options() {
                Ok(o) => o,
                Err(e) => return Obs::err(format!("OPTS {}", err_json(&e))),
            };
            // the other request's documents (its result, error or panic is the host's business)
            let other = |stage: u8| {
                if let Some(b) = between {
                    crate::seams::set_in_between(true);
                    let _ = std::panic::catch_unwind(std::panic::AssertUnwindSafe(|| {
                        if let Ok(pl) = prqlc::prql_to_pl(b) {
                            let _ = prqlc::json::from_pl(&pl);
                            if stage == 1 {
                                if let Ok(rq) = prqlc::pl_to_rq(pl) {
                                    let _ = prqlc::json::from_rq(&rq);
                                }
                            }
                        }
                    }));
                    crate::seams::set_in_between(false);
                }
            };
            let r = prqlc::prql_to_pl(src)
                .and_then(|pl| prqlc::json::from_pl(&pl))
                .and_then(|j| {
                    other(0);
                    prqlc::json::to_pl(&j)
                })
                .and_then(prqlc::pl_to_rq)
                .and_then(|rq| prqlc::json::from_rq(&rq))
                .and_then(|j| {
                    other(1);
                    prqlc::json::to_rq(&j)
                })
                .and_then(|rq| prqlc::rq_to_sql(rq, &o));
            match r {
                Ok(sql) => Obs::ok(sql),
                Err(e) => Obs::err(err_json(&e)),
            }
        }
        Op::StagedRqEdit { src, edit, opts } => {
            let o = match opts.to_options() {
                Ok(o) => o,
                Err(e) => return Obs::err(format!("OPTS {}", err_json(&e))),
            };
            let doc = match prqlc::prql_to_pl(src)
                .and_then(prqlc::pl_to_rq)
                .and_then(|rq| prqlc::json::from_rq(&rq))
            {
                Ok(j) => j,
                Err(e) => return Obs::err(err_json(&e)),
            };
            let doc = edit_rq_json(&doc, *edit);
            match prqlc::json::to_rq(&doc).and_then(|rq| prqlc::rq_to_sql(rq, &o)) {
                Ok(sql) => Obs::ok(sql),
                Err(e) => Obs::err(err_json(&e)),
            }
        }
        Op::Fmt { src } => match prqlc::prql_to_pl(src).and_then(|pl| prqlc::pl_to_prql(&pl)) {
            Ok(s) => Obs::ok(s),
            Err(e) => Obs::err(err_json(&e)),
        },
        Op::Rq { src } => match prqlc::prql_to_pl(src)
            .and_then(prqlc::pl_to_rq)
            .and_then(|rq| prqlc::json::from_rq(&rq))
        {
            Ok(s) => Obs::ok(s),
            Err(e) => Obs::err(err_json(&e)),
        },
        Op::EditInPlace { before, src } => {
            let path = PathBuf::from("Query.prql");
            let mut tree = prqlc::SourceTree::single(path.clone(), before.clone());
            let _ = std::panic::catch_unwind(std::panic::AssertUnwindSafe(|| {
                let _ = prqlc::prql_to_pl_tree(&tree);
            }));
            if let Some(text) = tree.sources.get_mut(&path) {
                text.replace_range(.., src);
            }
            match prqlc::prql_to_pl_tree(&tree) {
                Ok(pl) => match prqlc::pl_to_prql(&pl) {
                    Ok(s) => Obs::ok(s),
                    Err(e) => Obs::err(err_json_tree(&e, &tree)),
                },
                Err(e) => Obs::err(err_json_tree(&e, &tree)),
            }
        }
        Op::CApi { src, staged, opts } => c_api(src, *staged, opts),
        Op::Tokens { src } => match prqlc::prql_to_tokens(src) {
            Ok(t) => Obs::ok(format!("{t:?}")),
            Err(e) => Obs::err(err_json(&e)),
        },
        Op::Project {
            files,
            order,
            via_hashmap,
            dups,
            via_insert,
            sibling_first,
            abs_prefix,
            main_path,
            opts,
        } => {
            let o = match opts.to_options() {
                Ok(o) => o,
                Err(e) => return Obs::err(format!("OPTS {}", err_json(&e))),
            };
            let path_of = |i: usize| match abs_prefix {
                Some(pre) => decode_path(&format!("{pre}/project/{}", files[i].0)),
                None => decode_path(&files[i].0),
            };
            let ordered = order
                .iter()
                .chain(dups.iter())
                .map(|&i| (path_of(i), files[i].1.clone()));
            let root = Some(match abs_prefix {
                Some(_) => PathBuf::from("project"),
                None => PathBuf::from("/project"),
            });
            let tree = if *sibling_first {
                let mut it = ordered;
                let first: Vec<(PathBuf, String)> = it.by_ref().take(1).collect();
                let rest: Vec<(PathBuf, String)> = it.collect();
                let base = prqlc::SourceTree::new(first, root);
                // the sibling: one more file, inserted before the others
                let mut sib = base.clone();
                sib.insert(PathBuf::from("zz_other.prql"), "let q = 1\n".to_string());
                for (p, c) in &rest {
                    sib.insert(p.clone(), c.clone());
                }
                let mp = main_path.clone();
                let _ = std::panic::catch_unwind(std::panic::AssertUnwindSafe(|| {
                    let _ = prqlc::prql_to_pl_tree(&sib)
                        .and_then(|pl| prqlc::pl_to_rq_tree(pl, &mp, &[prqlc::semantic::NS_DEFAULT_DB.to_string()]));
                }));
                let mut t = base.clone();
                for (p, c) in rest {
                    t.insert(p, c);
                }
                t
            } else if *via_insert {
                let mut it = ordered;
                let first: Vec<(PathBuf, String)> = it.by_ref().take(1).collect();
                let mut t = prqlc::SourceTree::new(first, root);
                for (p, c) in it {
                    t.insert(p, c);
                }
                t
            } else if *via_hashmap {
                // what cli::read_files does: collect into a HashMap, then enumerate it
                let m: std::collections::HashMap<PathBuf, String> = ordered.collect();
                prqlc::SourceTree::new(m, root)
            } else {
                prqlc::SourceTree::new(ordered, root)
            };
            let pl = match prqlc::prql_to_pl_tree(&tree) {
                Ok(pl) => pl,
                Err(e) => return Obs::err(format!("PLERR {}", err_json_tree(&e, &tree))),
            };
            // what `prqlc fmt` / `prqlc collect` print for the assembled module tree
            let fmt = match prqlc::pl_to_prql(&pl) {
                Ok(s) => s,
                Err(e) => format!("FMTERR {}", err_json_tree(&e, &tree)),
            };
            let rq = match prqlc::pl_to_rq_tree(
                pl,
                main_path,
                &[prqlc::semantic::NS_DEFAULT_DB.to_string()],
            ) {
                Ok(rq) => rq,
                Err(e) => {
                    return Obs::err(format!(
                        "FMT {fmt}\nRQERR {}",
                        err_json_tree(&e.composed(&tree), &tree)
                    ))
                }
            };
            let text = format!("FMT {fmt}\nRQ {}", rq_text_tree(&rq, &tree));
            match prqlc::rq_to_sql(rq, &o) {
                Ok(sql) => Obs::ok(format!("{text}\nSQL {sql}")),
                Err(e) => Obs::err(format!(
                    "{text}\nSQLERR {}",
                    err_json_tree(&e.composed(&tree), &tree)
                )),
            }
        }
        Op::Cli {
            files,
            args,
            main_path,
            rewrite,
            debug_log,
            input,
            hash_base,
            readdir_seed,
        } => cli_process(files, args, main_path.as_deref(), *rewrite, *debug_log, *input, *hash_base, *readdir_seed),
        Op::SetCwd { dir } => {
            let _ = std::env::set_current_dir(dir);
            Obs::ok(String::new())
        }
        Op::SetEnv { value } => {
            match value {
                Some(v) => std::env::set_var("PRQL_VERSION_OVERRIDE", v),
                None => std::env::remove_var("PRQL_VERSION_OVERRIDE"),
            }
            Obs::ok(String::new())
        }
    }
}

/// Content of a generated file: text, or — after the marker `%%RAW%%` — percent-encoded bytes
/// (a file that is not valid UTF-8: the tool's read of it fails, an I/O outcome).
pub fn file_bytes(c: &str) -> Vec<u8> {
    match c.strip_prefix("%%RAW%%") {
        Some(rest) => {
            use std::os::unix::ffi::OsStringExt;
            decode_path(rest).into_os_string().into_vec()
        }
        None => c.as_bytes().to_vec(),
    }
}

pub const CLI_SCRATCH: &str = "/dev/shm/prql-sim-cli";

/// Where the CLI binary and the preload library are: next to the simulator's own build
/// (`target/cli/...`), whatever process image we are (`/proc/self/exe` after a fresh exec too).
pub fn cli_paths() -> (PathBuf, PathBuf) {
    let exe = std::fs::read_link("/proc/self/exe").unwrap_or_else(|_| PathBuf::from("target/debug/sim"));
    let target = exe.parent().and_then(|p| p.parent()).map(|p| p.to_path_buf()).unwrap_or_else(|| PathBuf::from("target"));
    (target.join("cli/debug/prqlc"), target.join("cli/libverif_preload.so"))
}

fn cli_process(
    files: &[(String, String)],
    args: &[String],
    main_path: Option<&str>,
    rewrite: bool,
    debug_log: bool,
    input: u8,
    hash_base: u64,
    readdir_seed: u64,
) -> Obs {
    use std::sync::atomic::{AtomicU64, Ordering};
    static N: AtomicU64 = AtomicU64::new(0);
    let (bin, preload) = cli_paths();
    let base = std::env::var_os("VERIF_CLI_SCRATCH").map(PathBuf::from).unwrap_or_else(|| PathBuf::from(CLI_SCRATCH));
    let top = base.join(format!("{}-{}", std::process::id(), N.fetch_add(1, Ordering::Relaxed)));
    let root = top.join("project");
    let fail = |what: &str, e: std::io::Error| Obs::noreturn(format!("HARNESS cli: {what}: {e}"));
    if let Err(e) = std::fs::create_dir_all(&root) {
        return fail("scratch directory", e);
    }
    for (p, c) in files {
        let path = root.join(decode_path(p));
        if let Some(d) = path.parent() {
            let _ = std::fs::create_dir_all(d);
        }
        if let Err(e) = std::fs::write(&path, file_bytes(c)) {
            let _ = std::fs::remove_dir_all(&top);
            return fail("write", e);
        }
    }
    let mut cmd = std::process::Command::new(&bin);
    cmd.current_dir(&top).env_clear();
    cmd.env("LD_PRELOAD", &preload)
        .env("VERIF_CLI_HASH_BASE", hash_base.to_string())
        .env("VERIF_CLI_READDIR_SEED", readdir_seed.to_string())
        .env("RUST_BACKTRACE", "0");
    if let Ok(v) = std::env::var("PRQL_VERSION_OVERRIDE") {
        cmd.env("PRQL_VERSION_OVERRIDE", v);
    }
    cmd.args(args);
    if debug_log {
        cmd.arg("--debug-log").arg("debug-log.json");
    }
    match (input, files.first()) {
        (1, Some((p, _))) => {
            cmd.arg(PathBuf::from("project").join(decode_path(p)));
        }
        (2, Some(_)) => {
            cmd.arg("-");
        }
        _ => {
            cmd.arg("project");
        }
    }
    if !rewrite {
        cmd.arg("-");
        if let Some(m) = main_path {
            cmd.arg(m);
        }
    }
    // standard input is a file (the first source, or an empty one): no pipe to feed
    let stdin_path = top.join("stdin.txt");
    let stdin_text = if input == 2 { files.first().map(|f| f.1.as_str()).unwrap_or("") } else { "" };
    let stdin = std::fs::write(&stdin_path, stdin_text).and_then(|_| std::fs::File::open(&stdin_path));
    match stdin {
        Ok(f) => {
            cmd.stdin(f);
        }
        Err(e) => {
            let _ = std::fs::remove_dir_all(&top);
            return fail("stdin", e);
        }
    }
    let out = match cmd.output() {
        Ok(o) => o,
        Err(e) => {
            let _ = std::fs::remove_dir_all(&top);
            return fail("spawn", e);
        }
    };
    // `debug lineage` prints the PL tree next to the lineage; PL holds the named arguments of a
    // call in a HashMap, and the order in which that serialises is not among the outputs the
    // property names (§3.1: PL is compared as canonical JSON everywhere) - so here too
    let stdout_text = if args.first().map(|a| a == "debug").unwrap_or(false) && args.iter().any(|a| a == "lineage") && out.status.code() == Some(0) {
        canonical_json(&String::from_utf8_lossy(&out.stdout))
    } else {
        String::from_utf8_lossy(&out.stdout).into_owned()
    };
    let mut text = format!(
        "EXIT {:?}\nSTDOUT {}\nSTDERR {}",
        out.status.code(),
        stdout_text,
        String::from_utf8_lossy(&out.stderr)
    );
    // `fmt` rewrites the files one by one and stops at the first that does not parse. Which
    // files it had got to by then is not an output the property names (SQL, RQ, error text,
    // formatted PRQL): the files are compared when the command succeeded, i.e. when every one
    // of them holds its formatted text.
    if rewrite && out.status.code() == Some(0) {
        let mut names: Vec<&(String, String)> = files.iter().collect();
        names.sort();
        for (p, _) in names {
            let c = std::fs::read(root.join(decode_path(p))).unwrap_or_default();
            text.push_str(&format!("\nFILE {p}\n{}", String::from_utf8_lossy(&c)));
        }
    }
    let _ = std::fs::remove_dir_all(&top);
    match out.status.code() {
        Some(0) => Obs::ok(text),
        _ => Obs::err(text),
    }
}

/// Run one operation as a host would: a panic is caught at the caller.
pub fn perform(op: &Op) -> Obs {
    match std::panic::catch_unwind(std::panic::AssertUnwindSafe(|| do_op(op))) {
        Ok(o) => o,
        Err(_) => Obs::panic(crate::seams::last_panic()),
    }
}


/// The repository's C binding, compiled into the simulator (see build.rs).
#[allow(dead_code, clippy::all, unsafe_op_in_unsafe_fn)]
mod prqlc_c {
    include!(concat!(env!("OUT_DIR"), "/prqlc_c.rs"));
}

/// Everything a C host can read from a `CompileResult`, as text; then `result_destroy`.
unsafe fn c_result_text(res: prqlc_c::CompileResult) -> (bool, String) {
    use std::ffi::CStr;
    let cs = |p: *const libc::c_char| -> String {
        if p.is_null() {
            "<null>".to_string()
        } else {
            CStr::from_ptr(p).to_string_lossy().into_owned()
        }
    };
    let opt = |p: *const *const libc::c_char| -> serde_json::Value {
        if p.is_null() {
            serde_json::Value::Null
        } else {
            serde_json::Value::String(cs(*p))
        }
    };
    let ok = res.messages_len == 0;
    let text = if ok {
        cs(res.output)
    } else {
        let mut v = Vec::new();
        for i in 0..res.messages_len {
            let m = &*res.messages.add(i);
            v.push(serde_json::json!({
                "kind": match m.kind { prqlc_c::MessageKind::Error => "Error", prqlc_c::MessageKind::Warning => "Warning", prqlc_c::MessageKind::Lint => "Lint" },
                "code": opt(m.code),
                "reason": cs(m.reason),
                "hint": opt(m.hint),
                "span": if m.span.is_null() { serde_json::Value::Null } else { serde_json::json!([(*m.span).start, (*m.span).end]) },
                "display": opt(m.display),
                "location": if m.location.is_null() { serde_json::Value::Null } else {
                    let l = &*m.location;
                    serde_json::json!([l.start_line, l.start_col, l.end_line, l.end_col])
                },
            }));
        }
        format!("OUT {} MSG {}", cs(res.output), serde_json::Value::Array(v))
    };
    prqlc_c::result_destroy(res);
    (ok, text)
}

fn c_api(src: &str, staged: bool, opts: &Opts) -> Obs {
    use std::ffi::CString;
    let Ok(csrc) = CString::new(src.replace('\0', " ")) else {
        return Obs::err("NUL".into());
    };
    let Ok(ctarget) = CString::new(opts.target.clone()) else {
        return Obs::err("NUL".into());
    };
    let copts = prqlc_c::Options {
        format: opts.format,
        target: ctarget.as_ptr() as *mut libc::c_char,
        signature_comment: opts.sig,
    };
    unsafe {
        if !staged {
            let (ok, text) = c_result_text(prqlc_c::compile(csrc.as_ptr(), &copts));
            return if ok { Obs::ok(text) } else { Obs::err(text) };
        }
        let mut all = String::new();
        let (ok, pl) = c_result_text(prqlc_c::prql_to_pl(csrc.as_ptr()));
        if !ok {
            return Obs::err(pl);
        }
        all.push_str("PL ");
        all.push_str(&canonical_json(&pl));
        let cpl = CString::new(pl).unwrap_or_default();
        let (ok, rq) = c_result_text(prqlc_c::pl_to_rq(cpl.as_ptr()));
        if !ok {
            return Obs::err(rq);
        }
        all.push_str("\nRQ ");
        all.push_str(&rq);
        let crq = CString::new(rq).unwrap_or_default();
        let (ok, sql) = c_result_text(prqlc_c::rq_to_sql(crq.as_ptr(), &copts));
        if !ok {
            return Obs::err(format!("{all}\n{sql}"));
        }
        all.push_str("\nSQL ");
        all.push_str(&sql);
        Obs::ok(all)
    }
}
