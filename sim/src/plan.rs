//! A Plan is the complete description of one simulated execution; running it
//! in a pristine process is a pure function of the plan and the code. It is
//! also the body of a replay file.

use serde::{Deserialize, Serialize};

use crate::ops::{Obs, Op};
use crate::seams::Counters;

#[derive(Serialize, Deserialize, Clone, Debug, PartialEq)]
pub struct Call {
    pub op: Op,
    /// Sequential mode only: run this call on a fresh OS thread whose hash
    /// keys derive from this base (models "another process / another thread").
    #[serde(default, skip_serializing_if = "Option::is_none")]
    pub hash_base: Option<u64>,
    /// Fault: panic at the n-th log record emitted during this call (1-based).
    #[serde(default, skip_serializing_if = "Option::is_none")]
    pub panic_at: Option<u32>,
    /// Bracket the call with `debug::log_start` / `debug::log_finish`.
    #[serde(default, skip_serializing_if = "std::ops::Not::not")]
    pub session: bool,
    /// History filler: the call is executed like any other but its own outcome is not
    /// compared (long histories of hundreds of calls; what is judged is what comes after).
    #[serde(default, skip_serializing_if = "std::ops::Not::not")]
    pub warm: bool,
    /// The host changes the `log` crate's process-global maximum level before this call
    /// (0 = Off ... 5 = Trace); sequential plans only.
    #[serde(default, skip_serializing_if = "Option::is_none")]
    pub log_level: Option<u8>,
}

impl Call {
    pub fn plain(op: Op) -> Self {
        Call {
            op,
            hash_base: None,
            panic_at: None,
            session: false,
            warm: false,
            log_level: None,
        }
    }
}

#[derive(Serialize, Deserialize, Clone, Debug, PartialEq, Default)]
pub struct Sched {
    pub seed: u64,
    /// probability (ppm) of switching away from a runnable current task at a scheduling point
    pub switch_ppm: u32,
    /// explicit schedule, run-length encoded (task, count); followed first,
    /// then "stay on the current task, else lowest runnable id"
    #[serde(default, skip_serializing_if = "Option::is_none")]
    pub explicit: Option<Vec<(u32, u32)>>,
}

#[derive(Serialize, Deserialize, Clone, Debug, PartialEq)]
pub struct Plan {
    pub stratum: String,
    pub exec_seed: u64,
    /// true: callers are shuttle tasks interleaved by the simulator's scheduler;
    /// false: callers run one after another, each on a fresh OS thread
    pub shuttle: bool,
    /// interleaving engine when `shuttle` (= interleaved) is true: "threads" (real OS threads
    /// handed a baton) or "shuttle" / "" (coroutines on one OS thread)
    #[serde(default, skip_serializing_if = "String::is_empty")]
    pub engine: String,
    pub hash_base: u64,
    #[serde(default, skip_serializing_if = "Option::is_none")]
    pub env_before: Option<String>,
    pub threads: Vec<Vec<Call>>,
    #[serde(default)]
    pub sched: Sched,
    #[serde(default)]
    pub log_yield_ppm: u32,
    /// run after all callers joined and faults stopped
    #[serde(default)]
    pub sentinel: Vec<Call>,
    #[serde(default)]
    pub keep_log: bool,
    /// Fault `heap_layout`: before anything runs, allocate this many blocks of seeded sizes
    /// and free every other one, so that every later allocation lands at another address
    /// than in the reference context (models "what the process allocated before" and
    /// address-space differences between processes).
    #[serde(default, skip_serializing_if = "is_zero")]
    pub heap_perturb: u32,
    /// Threads engine: mean number of allocations between two allocation-point preemptions
    /// of a running call (0 = none): scheduling points almost anywhere in library code.
    #[serde(default, skip_serializing_if = "is_zero")]
    pub alloc_yield_mean: u32,
    /// Threads engine: mean number of basic blocks of library code between two block-level
    /// preemptions of a running call (0 = none).
    #[serde(default, skip_serializing_if = "is_zero")]
    pub block_yield_mean: u32,
    /// Threads engine: mean number of atomic operations of library code (incl. the inlined
    /// fast paths of std's locks) between two atomic-point preemptions (0 = none).
    #[serde(default, skip_serializing_if = "is_zero")]
    pub atomic_yield_mean: u32,
    /// Threads engine, conflict-directed holds: mean number of atomic operations *through
    /// which callers can communicate* (static or cross-thread address, written before or
    /// being written) between two self-parkings of a running call (0 = none). A parked caller
    /// stays parked until another caller reaches the same address.
    #[serde(default, skip_serializing_if = "is_zero")]
    pub atomic_hold_mean: u32,
    /// Conflict-directed holds park a caller only before atomics in a seeded 1/atomic_focus of
    /// the static addresses (0 or 1 = everywhere).
    #[serde(default, skip_serializing_if = "is_zero")]
    pub atomic_focus: u32,
    /// Threads engine: atomic operations a caller may perform without a scheduling point
    /// before it is made to yield (0 = 20 000). A caller that spins on something another
    /// caller has to do is starved of that for at most this long - a large value models a
    /// machine with more runnable threads than cores.
    #[serde(default, skip_serializing_if = "is_zero")]
    pub spin_guard: u32,
    /// Fault `clock`: nanoseconds the simulated clock advances per reading (0 = the
    /// reference's 1 µs). A large step models a stalled or heavily loaded machine.
    #[serde(default, skip_serializing_if = "is_zero64")]
    pub clock_step_ns: u64,
    /// The `log` crate's process-global maximum level while the plan runs (0 = Off ... 5 =
    /// Trace; absent = Trace, which is also the reference context's). It decides whether the
    /// arguments of the library's `log::debug!` calls are evaluated at all.
    #[serde(default, skip_serializing_if = "Option::is_none")]
    pub log_level: Option<u8>,
    /// Fault `address_space`: run the execution in a freshly exec'd process (a new image
    /// base, stack, heap and mmap layout chosen by the kernel) instead of a fork of the
    /// worker, whose layout the reference context shares. Models "another process" for code
    /// that draws its entropy from addresses (a hasher seeded from ASLR, pointer-keyed
    /// ordering, the address of a static as a cheap random number).
    #[serde(default, skip_serializing_if = "std::ops::Not::not")]
    pub fresh_exec: bool,
}

fn is_zero64(x: &u64) -> bool {
    *x == 0
}

fn is_zero(x: &u32) -> bool {
    *x == 0
}

#[derive(Serialize, Deserialize, Clone, Debug)]
pub struct CallOut {
    pub obs: Obs,
    pub records: u32,
    pub fault_fired: bool,
    pub overlapped: bool,
}

#[derive(Serialize, Deserialize, Clone, Debug, Default)]
pub struct Outcome {
    pub calls: Vec<Vec<CallOut>>,
    pub sentinel: Vec<CallOut>,
    pub digest: u64,
    pub nevents: u64,
    pub steps: u64,
    pub switches: u64,
    pub counters: Counters,
    pub canary: String,
    pub getrandom_calls: u64,
    #[serde(default)]
    pub clock_reads: u64,
    /// threads engine: how often the baton holder was found asleep in the kernel (a real
    /// lock or channel) and the baton was given to somebody else
    #[serde(default)]
    pub ext_blocks: u64,
    #[serde(default)]
    pub log: Vec<String>,
    /// deadlock / step cap / scheduler failure
    #[serde(default)]
    pub noreturn: Option<String>,
    /// schedule actually taken (RLE), shuttle mode only
    #[serde(default)]
    pub schedule: Vec<(u32, u32)>,
    #[serde(default)]
    pub harness_error: Option<String>,
}
