//! Workload generation: a pure function (VERIF_SEED, stratum, index) → Plan.
//!
//! Programs come from three pools: the committed corpus snapshot, a
//! multiplicity generator (pipelines built so that hash containers inside the
//! compiler hold two or more candidates), and multi-file projects.

use crate::ops::{Op, Opts};
use crate::plan::{Call, Plan, Sched};
use crate::rng::{mix, mix3, Rng};

pub const DIALECTS: &[&str] = &[
    "sql.any",
    "sql.generic",
    "sql.ansi",
    "sql.postgres",
    "sql.sqlite",
    "sql.duckdb",
    "sql.mysql",
    "sql.mssql",
    "sql.bigquery",
    "sql.clickhouse",
    "sql.snowflake",
    "sql.redshift",
    "sql.glaredb",
];

pub struct Corpus {
    pub programs: Vec<String>,
    /// transform lines harvested from the corpus, for splicing
    pub lines: Vec<String>,
}

impl Corpus {
    pub fn load(dir: &str) -> Result<Corpus, String> {
        let mut names: Vec<String> = std::fs::read_dir(dir)
            .map_err(|e| format!("corpus dir {dir}: {e}"))?
            .filter_map(|e| e.ok())
            .map(|e| e.file_name().to_string_lossy().to_string())
            .filter(|n| n.ends_with(".prql"))
            .collect();
        names.sort();
        let mut programs = Vec::new();
        for n in &names {
            programs.push(std::fs::read_to_string(format!("{dir}/{n}")).map_err(|e| format!("{n}: {e}"))?);
        }
        if programs.is_empty() {
            return Err(format!("corpus dir {dir} holds no .prql files"));
        }
        let mut lines = Vec::new();
        for p in &programs {
            for l in p.lines() {
                let t = l.trim();
                let first = t.split_whitespace().next().unwrap_or("");
                if matches!(
                    first,
                    "derive" | "select" | "filter" | "sort" | "take" | "group" | "aggregate" | "join" | "window" | "append"
                ) && t.len() < 120
                    && balanced(t)
                {
                    lines.push(t.to_string());
                }
            }
        }
        lines.sort();
        lines.dedup();
        Ok(Corpus { programs, lines })
    }
}

fn balanced(s: &str) -> bool {
    let mut d: i32 = 0;
    let mut q: Option<char> = None;
    for c in s.chars() {
        if let Some(qc) = q {
            if c == qc {
                q = None;
            }
            continue;
        }
        match c {
            '"' | '\'' => q = Some(c),
            '(' | '{' | '[' => d += 1,
            ')' | '}' | ']' => {
                d -= 1;
                if d < 0 {
                    return false;
                }
            }
            _ => {}
        }
    }
    d == 0 && q.is_none()
}

// ------------------------------------------------------------------ multiplicity generator

const TABLES: &[&str] = &["albums", "tracks", "employees", "invoices", "t", "orders"];
const COLS: &[&str] = &[
    "id", "title", "total", "name", "x", "y", "a", "b", "c", "start", "end", "city", "genre_id", "album_id",
];
const NEW: &[&str] = &["a", "b", "c", "d", "s", "k", "n", "m", "total", "x", "y", "z", "r1", "r2"];

struct PGen<'a> {
    r: &'a mut Rng,
    cols: Vec<String>,
    /// probability (percent) of referring to a name that does not exist
    bad: usize,
}

impl<'a> PGen<'a> {
    fn col(&mut self) -> String {
        if self.r.below(100) < self.bad || self.cols.is_empty() {
            return self.r.pick(COLS).to_string();
        }
        let i = self.r.below(self.cols.len());
        self.cols[i].clone()
    }
    fn newname(&mut self) -> String {
        self.r.pick(NEW).to_string()
    }
    fn lit(&mut self) -> String {
        match self.r.below(8) {
            0 => "null".into(),
            1 => format!("{}", self.r.below(100)),
            2 => format!("{}.{}", self.r.below(10), self.r.below(100)),
            3 => "'it'".into(),
            4 => "\"x\"".into(),
            5 => "@2021-03-04".into(),
            6 => "true".into(),
            _ => format!("{}", self.r.below(5)),
        }
    }
    fn expr(&mut self, depth: usize) -> String {
        if depth == 0 || self.r.below(3) == 0 {
            return if self.r.below(4) == 0 { self.lit() } else { self.col() };
        }
        match self.r.below(14) {
            0 => format!("{} + {}", self.expr(depth - 1), self.expr(depth - 1)),
            1 => format!("({} - {}) * {}", self.expr(depth - 1), self.expr(depth - 1), self.expr(depth - 1)),
            2 => format!("{} // {}", self.expr(depth - 1), self.expr(depth - 1)),
            3 => format!("{} ?? {}", self.col(), self.lit()),
            4 => format!("{} == {}", self.expr(depth - 1), self.expr(depth - 1)),
            5 => format!("({} > {} && {} != null)", self.col(), self.lit(), self.col()),
            6 => format!("s\"COALESCE({{{}}}, {{{}}})\"", self.col(), self.col()),
            7 => format!("f\"{{{}}}-{{{}}}\"", self.col(), self.col()),
            8 => format!(
                "case [{} > 1 => {}, {} == null => {}, true => {}]",
                self.col(),
                self.expr(depth - 1),
                self.col(),
                self.lit(),
                self.lit()
            ),
            9 => format!("({} | in 1..5)", self.col()),
            10 => format!("({} | text.upper)", self.col()),
            11 => format!("(math.round 2 {})", self.col()),
            12 => format!("({} ~= 'x')", self.col()),
            _ => format!("-{}", self.col()),
        }
    }
    fn col_list(&mut self, lo: usize, hi: usize) -> Vec<String> {
        let n = self.r.range(lo, hi);
        (0..n).map(|_| self.col()).collect()
    }
    fn assigns(&mut self, lo: usize, hi: usize, agg: bool) -> (String, Vec<String>) {
        let n = self.r.range(lo, hi);
        let mut parts = Vec::new();
        let mut names = Vec::new();
        // with some probability all new columns alias the *same* source column
        let same = if self.r.below(3) == 0 { Some(self.col()) } else { None };
        for _ in 0..n {
            let name = self.newname();
            let e = if agg {
                let f = *self.r.pick(&["sum", "min", "max", "count", "average"]);
                format!("{f} {}", same.clone().unwrap_or_else(|| self.col()))
            } else {
                same.clone().unwrap_or_else(|| self.expr(2))
            };
            if self.r.below(6) == 0 && !agg {
                parts.push(e);
            } else {
                parts.push(format!("{name} = {e}"));
                names.push(name);
            }
        }
        (format!("{{{}}}", parts.join(", ")), names)
    }

    fn source(&mut self) -> String {
        match self.r.below(10) {
            0 => {
                self.cols = vec!["a".into(), "b".into(), "c".into()];
                "from_text format:json '[{\"a\": 1, \"b\": \"x\", \"c\": null}, {\"a\": 2, \"b\": \"y\", \"c\": 3}]'".into()
            }
            1 => {
                self.cols = vec!["b".into(), "a".into(), "m".into()];
                "from_text format:json '{\"columns\": [\"b\", \"a\", \"m\"], \"data\": [[1, \"x\", false], [4, \"y\", null]]}'".into()
            }
            2 => {
                self.cols = vec!["k".into(), "x".into(), "y".into()];
                "from [{k = 1, x = 2, y = 3}, {k = 4, x = 5, y = 6}]".into()
            }
            3 => {
                self.cols = vec!["a".into(), "b".into()];
                "from_text format:csv \"\"\"\na,b\n1,2\n3,4\n\"\"\"".into()
            }
            4 => {
                let t = self.r.pick(TABLES).to_string();
                self.cols = Vec::new();
                format!("from e = {t}")
            }
            _ => {
                let t = self.r.pick(TABLES).to_string();
                self.cols = Vec::new();
                format!("from {t}")
            }
        }
    }

    fn transform(&mut self, lets: &[String], corpus: &Corpus) -> String {
        match self.r.below(22) {
            0 | 1 | 2 => {
                let (a, names) = self.assigns(1, 3, false);
                self.cols.extend(names);
                format!("derive {a}")
            }
            3 | 4 => {
                if self.r.below(3) == 0 {
                    let (a, names) = self.assigns(1, 3, false);
                    self.cols = names;
                    format!("select {a}")
                } else {
                    let l = self.col_list(1, 4);
                    self.cols = l.clone();
                    format!("select {{{}}}", l.join(", "))
                }
            }
            5 => {
                let l = self.col_list(1, 2);
                self.cols.retain(|c| !l.contains(c));
                format!("select !{{{}}}", l.join(", "))
            }
            6 | 7 => format!("filter {}", self.expr(2)),
            8 | 9 => {
                let l: Vec<String> = self
                    .col_list(1, 3)
                    .into_iter()
                    .map(|c| if self.r.below(3) == 0 { format!("-{c}") } else { c })
                    .collect();
                format!("sort {{{}}}", l.join(", "))
            }
            10 => format!("take {}", self.r.range(1, 20)),
            11 => format!("take {}..{}", self.r.range(1, 5), self.r.range(5, 20)),
            12 | 13 => {
                let by = self.col_list(1, 2);
                let (a, names) = self.assigns(1, 3, true);
                let mut nc = by.clone();
                nc.extend(names);
                self.cols = nc;
                format!("group {{{}}} (aggregate {a})", by.join(", "))
            }
            14 => {
                let by = self.col_list(1, 2);
                let s = self.col();
                format!("group {{{}}} (sort {s} | take {})", by.join(", "), self.r.range(1, 3))
            }
            15 => {
                let n = self.newname();
                let c = self.col();
                let s = self.col();
                self.cols.push(n.clone());
                match self.r.below(3) {
                    0 => format!("window rows:-2..0 (sort {s} | derive {n} = sum {c})"),
                    1 => format!("group {c} (sort {s} | derive {n} = row_number this)"),
                    _ => format!("sort {s} | derive {n} = lag 1 {c}"),
                }
            }
            16 | 17 => {
                let side = *self.r.pick(&["", "side:left ", "side:full ", "side:right "]);
                let alias = *self.r.pick(&["j", "l", "o", "e2"]);
                let other = if !lets.is_empty() && self.r.below(2) == 0 {
                    self.r.pick(lets).to_string()
                } else if self.r.below(4) == 0 {
                    "[{q = 1, k = 2}]".to_string()
                } else {
                    self.r.pick(TABLES).to_string()
                };
                let cond = match self.r.below(4) {
                    0 => format!("=={}", self.col()),
                    1 => format!("this.{} == that.{}", self.col(), self.r.pick(COLS)),
                    2 => format!("{} == {alias}.{}", self.col(), self.r.pick(COLS)),
                    _ => "true".to_string(),
                };
                self.cols.push(format!("{alias}.{}", self.r.pick(COLS)));
                format!("join {side}{alias} = {other} ({cond})")
            }
            18 => {
                let (a, names) = self.assigns(1, 3, true);
                self.cols = names;
                format!("aggregate {a}")
            }
            19 => {
                let other = if !lets.is_empty() && self.r.below(2) == 0 {
                    self.r.pick(lets).to_string()
                } else {
                    self.r.pick(TABLES).to_string()
                };
                format!("append {other}")
            }
            20 => "select this".to_string(),
            _ => {
                if corpus.lines.is_empty() {
                    "take 3".into()
                } else {
                    self.r.pick(&corpus.lines).clone()
                }
            }
        }
    }

    fn pipeline(&mut self, lets: &[String], corpus: &Corpus, len: usize) -> Vec<String> {
        let mut v = vec![if !lets.is_empty() && self.r.below(3) == 0 {
            self.cols = Vec::new();
            format!("from {}", self.r.pick(lets))
        } else {
            self.source()
        }];
        for _ in 0..len {
            v.push(self.transform(lets, corpus));
        }
        v
    }
}

/// A generated single-file program.
pub fn gen_program(r: &mut Rng, corpus: &Corpus) -> String {
    let bad = *r.pick(&[0usize, 0, 3, 10, 30]);
    let mut g = PGen {
        r,
        cols: Vec::new(),
        bad,
    };
    let mut out = String::new();
    if g.r.below(12) == 0 {
        let d = g.r.pick(DIALECTS).to_string();
        out.push_str(&format!("prql target:{d}\n\n"));
    }
    // functions with several named parameters
    let mut funcs = Vec::new();
    if g.r.below(4) == 0 {
        out.push_str("let f = func a:4 b:5 c:6 z -> z + a + b + c\n");
        funcs.push("f");
    }
    let mut lets: Vec<String> = Vec::new();
    let nlets = *g.r.pick(&[0usize, 0, 0, 1, 1, 2, 3]);
    for i in 0..nlets {
        let name = format!("{}{}", g.r.pick(&["tab", "cte", "x", "sub"]), i);
        let len = g.r.range(0, 3);
        let p = g.pipeline(&lets.clone(), corpus, len);
        out.push_str(&format!("let {name} = (\n  {}\n)\n", p.join("\n  ")));
        lets.push(name);
    }
    if g.r.below(10) == 0 {
        out.push_str("module m {\n  let two = 2\n  let inc = func by:1 x -> x + by\n  let src = (from t | select {a, b})\n}\n");
        lets.push("m.src".into());
    }
    let len = g.r.range(1, 9);
    let mut p = g.pipeline(&lets, corpus, len);
    if !funcs.is_empty() {
        let c = g.col();
        let variants = [
            format!("derive fz = (f c:1 a:2 {c})"),
            format!("derive fz = (f b:7 c:1 a:2 {c})"),
            format!("derive fz = (f a:2 b:1 {c})"),
        ];
        p.push(g.r.pick(&variants).clone());
    }
    if lets.iter().any(|l| l == "m.src") && g.r.below(2) == 0 {
        p.push(format!("derive mm = (m.inc by:m.two {})", g.col()));
    }
    out.push_str(&p.join("\n"));
    out.push('\n');
    out
}

/// Splice: mutate a corpus program by line-level edits (drop, duplicate, swap,
/// insert a harvested transform, rename a column to another known word).
pub fn splice_program(r: &mut Rng, corpus: &Corpus) -> String {
    let base = r.pick(&corpus.programs).clone();
    let mut lines: Vec<String> = base.lines().map(|s| s.to_string()).collect();
    let edits = r.range(1, 3);
    for _ in 0..edits {
        if lines.is_empty() {
            break;
        }
        let i = r.below(lines.len());
        match r.below(6) {
            0 => {
                lines.remove(i);
            }
            1 => {
                let l = lines[i].clone();
                lines.insert(i, l);
            }
            2 => {
                let j = r.below(lines.len());
                lines.swap(i, j);
            }
            3 | 4 => {
                if !corpus.lines.is_empty() {
                    lines.insert(i + 1, r.pick(&corpus.lines).clone());
                }
            }
            _ => {
                let from = *r.pick(COLS);
                let to = *r.pick(COLS);
                lines[i] = replace_word(&lines[i], from, to);
            }
        }
    }
    let mut s = lines.join("\n");
    s.push('\n');
    s
}

fn replace_word(s: &str, from: &str, to: &str) -> String {
    let mut out = String::new();
    let mut word = String::new();
    let flush = |w: &mut String, out: &mut String| {
        if w == from {
            out.push_str(to);
        } else {
            out.push_str(w);
        }
        w.clear();
    };
    for c in s.chars() {
        if c.is_alphanumeric() || c == '_' {
            word.push(c);
        } else {
            flush(&mut word, &mut out);
            out.push(c);
        }
    }
    flush(&mut word, &mut out);
    out
}

// ------------------------------------------------------------------ projects

pub struct Project {
    pub files: Vec<(String, String)>,
    pub main_path: Vec<String>,
}

pub fn gen_project(r: &mut Rng, corpus: &Corpus) -> Project {
    let mut files: Vec<(String, String)> = Vec::new();
    let nmods = r.range(1, 3);
    let mod_names = ["artists", "orders", "lib", "util"];
    let mut refs: Vec<String> = Vec::new();
    let mut used = Vec::new();
    for k in 0..nmods {
        let mut name = r.pick(&mod_names).to_string();
        if used.contains(&name) {
            name = format!("{name}{k}");
        }
        used.push(name.clone());
        let nested = r.below(3) == 0;
        let path = if nested {
            format!("sub/{name}.prql")
        } else {
            format!("{name}.prql")
        };
        let modpath = if nested { format!("sub.{name}") } else { name.clone() };
        let body = match r.below(6) {
            0 => "let input = read_parquet \"artists.parquet\"\n".to_string(),
            1 => "let x = (from z | select {y, u})\nlet w = (from z | derive {a = y, b = y})\n".to_string(),
            2 => "let x = (from z | select {y, u})\nlet inc = func by:1 v -> v + by\n".to_string(),
            3 => "let x = (from z | select {y, nope_unknown + })\n".to_string(), // syntax error in a non-root file
            4 => "let x = (from z | select {y, u} | filter missing_col > 1 | select {q})\n".to_string(),
            _ => {
                let mut rr = r.fork(7);
                let p = gen_program(&mut rr, corpus);
                format!("let x = (\n{}\n)\n", p.trim_end())
            }
        };
        let table = if body.contains("let input") { "input" } else { "x" };
        refs.push(format!("{modpath}.{table}"));
        files.push((path, body));
    }
    // root(s)
    let roots = *r.pick(&[1usize, 1, 1, 1, 1, 0, 2]);
    let root_names = ["Project.prql", "Other.prql", "Main.prql"];
    for k in 0..roots {
        let rf = &refs[r.below(refs.len())];
        let body = match r.below(5) {
            0 => format!("{rf} | select y\n"),
            1 => format!(
                "let favorite = [\n  {{artist_id = 120, last_listen = @2023-05-18}},\n  {{artist_id = 7, last_listen = @2023-05-16}},\n]\n\nfavorite\njoin side:left {rf} (==artist_id)\n"
            ),
            2 => format!("from t{k} | join j = {rf} (==y) | derive {{a = y, b = y}} | sort y | select {{a, b}} | take {}\n", 3 + k),
            3 => format!("{rf} | filter unknown_name_{k} > 1\n"),
            _ => format!("from {rf}\nderive k{k} = y + 1\n"),
        };
        files.push((root_names[k].to_string(), body));
    }
    if roots == 0 && r.below(2) == 0 {
        files.push(("".to_string(), format!("{} | take 1\n", refs[0])));
    }
    Project {
        files,
        main_path: Vec::new(),
    }
}

// ------------------------------------------------------------------ ops

pub struct Gen<'a> {
    pub corpus: &'a Corpus,
    pub verif_seed: u64,
}

fn pick_opts(r: &mut Rng, dialect_sensitive: bool) -> Opts {
    let target = if dialect_sensitive || r.below(2) == 0 {
        r.pick(DIALECTS).to_string()
    } else {
        "sql.any".to_string()
    };
    Opts {
        target,
        format: r.below(4) == 0,
        sig: r.below(5) == 0,
        ansi: r.below(6) == 0,
    }
}

/// programs whose SQL differs between dialects (quoting, take, //, regex, dates)
const DIALECT_SENSITIVE: &[&str] = &[
    "from employees | filter name ~= 'x' | take 3 | select {`first name`, b}",
    "from t | derive {d = a // b, e = (a | as int)} | take 2..5",
    "from invoices | derive s = f\"{a}-{b}\" | sort {-total} | take 10 | select {s, `order`}",
    "from t | filter (d | date.to_text \"%Y\") == '2020' | derive {x = a ** 2} | take 1",
    "from tracks | group genre_id (sort {-milliseconds} | take 2) | select {`group`, name}",
    "from a | join side:full b (==id) | derive {z = a.x ?? b.x} | take 7",
];

impl<'a> Gen<'a> {
    pub fn program(&self, r: &mut Rng) -> String {
        match r.below(10) {
            0..=3 => r.pick(&self.corpus.programs).clone(),
            4..=7 => gen_program(r, self.corpus),
            _ => splice_program(r, self.corpus),
        }
    }

    pub fn single_op(&self, r: &mut Rng, dialect_sensitive: bool) -> Op {
        let src = if dialect_sensitive && r.below(2) == 0 {
            r.pick(DIALECT_SENSITIVE).to_string()
        } else {
            self.program(r)
        };
        match r.below(20) {
            0..=8 => Op::Compile {
                src,
                opts: pick_opts(r, dialect_sensitive),
            },
            9..=11 => Op::Staged {
                src,
                opts: pick_opts(r, dialect_sensitive),
            },
            12 => Op::StagedJson {
                src,
                opts: pick_opts(r, dialect_sensitive),
            },
            13..=15 => Op::Fmt { src },
            16..=17 => Op::Rq { src },
            18 => Op::Tokens { src },
            _ => self.project_op(r, None),
        }
    }

    pub fn project_op(&self, r: &mut Rng, dialect: Option<&str>) -> Op {
        let p = gen_project(r, self.corpus);
        let n = p.files.len();
        let mut opts = pick_opts(r, false);
        if let Some(d) = dialect {
            opts.target = d.to_string();
        }
        Op::Project {
            files: p.files,
            order: (0..n).collect(),
            via_hashmap: false,
            main_path: p.main_path,
            opts,
        }
    }

    /// Stratum A: one operation under K+1 hash bases (and, for projects, K+1
    /// enumeration orders). Call 0 is the reference context itself.
    pub fn plan_a(&self, i: u64, k: usize) -> Plan {
        let s = mix3(self.verif_seed, 0xA, i);
        let mut r = Rng::new(s);
        let op = if r.below(6) == 0 {
            self.project_op(&mut r, None)
        } else {
            self.single_op(&mut r, false)
        };
        let mut calls = vec![Call {
            op: op.clone(),
            hash_base: Some(0),
            panic_at: None,
            session: false,
        }];
        for _ in 0..k {
            let mut o = op.clone();
            if let Op::Project {
                order, via_hashmap, ..
            } = &mut o
            {
                r.shuffle(order);
                *via_hashmap = r.below(3) == 0;
            }
            calls.push(Call {
                op: o,
                hash_base: Some(1 + (r.next_u64() >> 16)),
                panic_at: None,
                session: false,
            });
        }
        Plan {
            stratum: "A".into(),
            exec_seed: s,
            shuttle: false,
            hash_base: 0,
            env_before: None,
            threads: vec![calls],
            sched: Sched::default(),
            log_yield_ppm: 0,
            sentinel: vec![],
            keep_log: false,
        }
    }

    fn sentinel(&self, r: &mut Rng) -> Vec<Call> {
        let progs = [
            "from employees | filter age > 30 | derive {a = salary, b = salary} | sort a | take 5 | select {a, b, `first name`}",
            "from t | select {a, b} | filter nonexistent > 1",
            "let f = func a:4 b:5 c:6 z -> z + a + b + c\nfrom t | derive y = (f c:1 a:2 x)",
        ];
        let d = r.pick(DIALECTS).to_string();
        vec![
            Call::plain(Op::Compile {
                src: progs[0].into(),
                opts: Opts {
                    target: d,
                    format: false,
                    sig: true,
                    ansi: false,
                },
            }),
            Call::plain(Op::Compile {
                src: progs[1].into(),
                opts: Opts::plain("sql.any"),
            }),
            Call::plain(Op::Fmt { src: progs[2].into() }),
            Call::plain(Op::Staged {
                src: progs[0].into(),
                opts: Opts::plain("sql.mssql"),
            }),
        ]
    }

    /// Stratum B: call histories. Callers run one after another (each on a
    /// fresh OS thread); faults: failing and panicking predecessors, injected
    /// panics, debug sessions, env changes between calls. Sentinel afterwards.
    pub fn plan_b(&self, i: u64, panickers: &[String]) -> Plan {
        let s = mix3(self.verif_seed, 0xB, i);
        let mut r = Rng::new(s);
        let nthreads = *r.pick(&[1usize, 1, 2, 3]);
        let fault_panic_inj = r.below(2) == 0;
        let fault_panic_real = r.below(2) == 0 && !panickers.is_empty();
        let fault_env = r.below(3) == 0;
        let fault_session = r.below(3) == 0;
        let mut threads = Vec::new();
        let mut session_thread_used = false;
        for t in 0..nthreads {
            let ncalls = r.range(1, 5);
            let mut calls = Vec::new();
            let session_here = fault_session && !session_thread_used && r.below(2) == 0;
            if session_here {
                session_thread_used = true;
            }
            for _ in 0..ncalls {
                let ds = r.below(3) == 0;
                let mut c = Call::plain(self.single_op(&mut r, ds));
                if fault_panic_real && r.below(5) == 0 {
                    c.op = Op::Compile {
                        src: r.pick(panickers).clone(),
                        opts: pick_opts(&mut r, false),
                    };
                }
                if fault_panic_inj && r.below(5) == 0 {
                    c.panic_at = Some(match r.below(3) {
                        0 => r.range(1, 12) as u32,
                        1 => r.range(1, 120) as u32,
                        _ => r.range(1, 900) as u32,
                    });
                }
                if session_here && r.below(2) == 0 {
                    c.session = true;
                }
                calls.push(c);
                if fault_env && nthreads == 1 && r.below(4) == 0 {
                    let v = match r.below(3) {
                        0 => None,
                        1 => Some("0.9.2".to_string()),
                        _ => Some("1.2.3".to_string()),
                    };
                    calls.push(Call::plain(Op::SetEnv { value: v }));
                }
            }
            let _ = t;
            threads.push(calls);
        }
        let env_before = if fault_env && r.below(2) == 0 {
            Some("0.11.7".to_string())
        } else {
            None
        };
        let mut sentinel = Vec::new();
        if fault_env && r.below(2) == 0 {
            sentinel.push(Call::plain(Op::SetEnv {
                value: if r.below(2) == 0 { None } else { Some("2.0.0".into()) },
            }));
        }
        sentinel.extend(self.sentinel(&mut r));
        Plan {
            stratum: "B".into(),
            exec_seed: s,
            shuttle: false,
            hash_base: if r.below(2) == 0 { 0 } else { 1 + (r.next_u64() >> 16) },
            env_before,
            threads,
            sched: Sched::default(),
            log_yield_ppm: 0,
            sentinel,
            keep_log: false,
        }
    }

    /// Stratum C: concurrent callers as shuttle tasks under the simulator's
    /// scheduler; dialect-sensitive programs, different options per caller.
    pub fn plan_c(&self, i: u64, panickers: &[String]) -> Plan {
        let s = mix3(self.verif_seed, 0xC, i);
        let mut r = Rng::new(s);
        let nthreads = *r.pick(&[2usize, 2, 3, 3, 4]);
        let fault_panic_inj = r.below(2) == 0;
        let fault_panic_real = r.below(3) == 0 && !panickers.is_empty();
        let fault_session = r.below(3) == 0;
        let session_thread = r.below(nthreads);
        let mut threads = Vec::new();
        for t in 0..nthreads {
            let ncalls = r.range(1, 4);
            let mut calls = Vec::new();
            for _ in 0..ncalls {
                let mut c = Call::plain(self.single_op(&mut r, true));
                if fault_panic_real && r.below(6) == 0 {
                    c.op = Op::Compile {
                        src: r.pick(panickers).clone(),
                        opts: pick_opts(&mut r, true),
                    };
                }
                if fault_panic_inj && r.below(6) == 0 {
                    c.panic_at = Some(match r.below(3) {
                        0 => r.range(1, 12) as u32,
                        1 => r.range(1, 120) as u32,
                        _ => r.range(1, 900) as u32,
                    });
                }
                if fault_session && t == session_thread && r.below(2) == 0 {
                    c.session = true;
                }
                calls.push(c);
            }
            threads.push(calls);
        }
        let env_before = if r.below(6) == 0 { Some("0.12.1".to_string()) } else { None };
        let mut sentinel = Vec::new();
        if env_before.is_some() && r.below(2) == 0 {
            sentinel.push(Call::plain(Op::SetEnv { value: None }));
        }
        sentinel.extend(self.sentinel(&mut r));
        Plan {
            stratum: "C".into(),
            exec_seed: s,
            shuttle: true,
            hash_base: if r.below(2) == 0 { 0 } else { 1 + (r.next_u64() >> 16) },
            env_before,
            threads,
            sched: Sched {
                seed: mix(s, 0x5c4ed),
                switch_ppm: *r.pick(&[1_000_000u32, 300_000, 50_000, 10_000, 2_000, 500]),
                explicit: None,
            },
            log_yield_ppm: *r.pick(&[0u32, 50_000, 500_000, 1_000_000]),
            sentinel,
            keep_log: false,
        }
    }
}
