//! Workload generation: a pure function (VERIF_SEED, stratum, index) → Plan.
//!
//! Programs come from three pools: the committed corpus snapshot, a
//! multiplicity generator (pipelines built so that hash containers inside the
//! compiler hold two or more candidates), and multi-file projects.

use crate::ops::{Op, Opts};
use crate::plan::{Call, Plan, Sched};
use crate::rng::{fnv, mix, mix3, Rng};

pub const DIALECTS: &[&str] = &[
    "sql.any",
    "sql.generic",
    "sql.ansi",
    "sql.postgres",
    "sql.sqlite",
    "sql.duckdb",
    "sql.mysql",
    "sql.mssql",
    "sql.bigquery",
    "sql.clickhouse",
    "sql.snowflake",
    "sql.redshift",
    "sql.glaredb",
];

pub struct Corpus {
    pub programs: Vec<String>,
    /// transform lines harvested from the corpus, for splicing
    pub lines: Vec<String>,
}

impl Corpus {
    pub fn load(dir: &str) -> Result<Corpus, String> {
        let mut names: Vec<String> = std::fs::read_dir(dir)
            .map_err(|e| format!("corpus dir {dir}: {e}"))?
            .filter_map(|e| e.ok())
            .map(|e| e.file_name().to_string_lossy().to_string())
            .filter(|n| n.ends_with(".prql"))
            .collect();
        names.sort();
        let mut programs = Vec::new();
        for n in &names {
            programs.push(std::fs::read_to_string(format!("{dir}/{n}")).map_err(|e| format!("{n}: {e}"))?);
        }
        if programs.is_empty() {
            return Err(format!("corpus dir {dir} holds no .prql files"));
        }
        let mut lines = Vec::new();
        for p in &programs {
            for l in p.lines() {
                let t = l.trim();
                let first = t.split_whitespace().next().unwrap_or("");
                if matches!(
                    first,
                    "derive" | "select" | "filter" | "sort" | "take" | "group" | "aggregate" | "join" | "window" | "append"
                ) && t.len() < 120
                    && balanced(t)
                {
                    lines.push(t.to_string());
                }
            }
        }
        lines.sort();
        lines.dedup();
        Ok(Corpus { programs, lines })
    }
}

fn balanced(s: &str) -> bool {
    let mut d: i32 = 0;
    let mut q: Option<char> = None;
    for c in s.chars() {
        if let Some(qc) = q {
            if c == qc {
                q = None;
            }
            continue;
        }
        match c {
            '"' | '\'' => q = Some(c),
            '(' | '{' | '[' => d += 1,
            ')' | '}' | ']' => {
                d -= 1;
                if d < 0 {
                    return false;
                }
            }
            _ => {}
        }
    }
    d == 0 && q.is_none()
}

// ------------------------------------------------------------------ multiplicity generator

const TABLES: &[&str] = &["albums", "tracks", "employees", "invoices", "t", "orders"];
const COLS: &[&str] = &[
    "id", "title", "total", "name", "x", "y", "a", "b", "c", "start", "end", "city", "genre_id", "album_id",
];
const KW_COLS: &[&str] = &[
    "time", "timestamp", "tag", "percent", "system", "identity", "top", "snapshot", "user", "order", "date", "offset",
    "partition", "window", "first name", "qualify",
];
const NEW: &[&str] = &["a", "b", "c", "d", "s", "k", "n", "m", "total", "x", "y", "z", "r1", "r2"];

struct PGen<'a> {
    r: &'a mut Rng,
    cols: Vec<String>,
    /// probability (percent) of referring to a name that does not exist
    bad: usize,
}

impl<'a> PGen<'a> {
    fn col(&mut self) -> String {
        if self.r.below(12) == 0 {
            // names that are keywords in some dialects only
            return format!("`{}`", self.r.pick(KW_COLS));
        }
        if self.r.below(100) < self.bad || self.cols.is_empty() {
            return self.r.pick(COLS).to_string();
        }
        let i = self.r.below(self.cols.len());
        self.cols[i].clone()
    }
    fn newname(&mut self) -> String {
        self.r.pick(NEW).to_string()
    }
    fn lit(&mut self) -> String {
        match self.r.below(8) {
            0 => "null".into(),
            1 => format!("{}", self.r.below(100)),
            // one time in six a float whose shortest decimal form is not what a JSON document
            // reads back to (documents written by one stage and read by the next, S78)
            2 if self.r.below(6) == 0 => (*self.r.pick(&["1.602176634e-19", "6.02214076e23", "2.2250738585072014e-308", "0.1e-6", "1e999", "123456789.123456789e-5"])).to_string(),
            2 => format!("{}.{}", self.r.below(10), self.r.below(100)),
            3 => "'it'".into(),
            4 => "\"x\"".into(),
            5 => "@2021-03-04".into(),
            6 => "true".into(),
            _ if self.r.below(5) == 0 => match self.r.below(5) {
                0 => format!("{}_{:03}", 1 + self.r.below(9), self.r.below(1000)),
                1 => format!("0x{:x}", self.r.below(4096)),
                2 => format!("0b{:b}", self.r.below(64)),
                3 => format!("0o{:o}", self.r.below(512)),
                _ => format!("{}_{}.{}", 1 + self.r.below(9), self.r.below(10), self.r.below(100)),
            },
            _ => format!("{}", self.r.below(5)),
        }
    }
    fn expr(&mut self, depth: usize) -> String {
        if depth == 0 || self.r.below(3) == 0 {
            return if self.r.below(4) == 0 { self.lit() } else { self.col() };
        }
        match self.r.below(22) {
            0 => format!("{} + {}", self.expr(depth - 1), self.expr(depth - 1)),
            1 => format!("({} - {}) * {}", self.expr(depth - 1), self.expr(depth - 1), self.expr(depth - 1)),
            2 => format!("{} // {}", self.expr(depth - 1), self.expr(depth - 1)),
            3 => format!("{} ?? {}", self.col(), self.lit()),
            4 => format!("{} == {}", self.expr(depth - 1), self.expr(depth - 1)),
            5 => format!("({} > {} && {} != null)", self.col(), self.lit(), self.col()),
            6 => format!("s\"COALESCE({{{}}}, {{{}}})\"", self.col(), self.col()),
            7 => format!("f\"{{{}}}-{{{}}}\"", self.col(), self.col()),
            8 => format!(
                "case [{} > 1 => {}, {} == null => {}, true => {}]",
                self.col(),
                self.expr(depth - 1),
                self.col(),
                self.lit(),
                self.lit()
            ),
            9 => format!("({} | in 1..5)", self.col()),
            10 => format!("({} | text.upper)", self.col()),
            11 => format!("(math.round 2 {})", self.col()),
            12 => format!("({} ~= 'x')", self.col()),
            13 => format!("{} / {}", self.expr(depth - 1), self.expr(depth - 1)),
            14 => format!("{} % {}", self.col(), self.r.range(2, 9)),
            15 => format!("{} ** 2", self.col()),
            16 => format!("({} | as int)", self.col()),
            17 => format!("(text.length {}) + (math.abs {})", self.col(), self.col()),
            18 => format!("({} | text.contains 'ab') || ({} | text.starts_with 'x')", self.col(), self.col()),
            19 => format!("({} | date.to_text \"%Y-%m\")", self.col()),
            20 => format!("(math.pow 2 {}) / (math.sqrt {})", self.col(), self.col()),
            _ => format!("-{}", self.col()),
        }
    }
    fn col_list(&mut self, lo: usize, hi: usize) -> Vec<String> {
        let n = self.r.range(lo, hi);
        (0..n).map(|_| self.col()).collect()
    }
    fn assigns(&mut self, lo: usize, hi: usize, agg: bool) -> (String, Vec<String>) {
        let n = self.r.range(lo, hi);
        let mut parts = Vec::new();
        let mut names = Vec::new();
        // with some probability all new columns alias the *same* source column
        let same = if self.r.below(3) == 0 { Some(self.col()) } else { None };
        for _ in 0..n {
            let name = self.newname();
            let e = if agg {
                let f = *self.r.pick(&["sum", "min", "max", "count", "average"]);
                format!("{f} {}", same.clone().unwrap_or_else(|| self.col()))
            } else {
                same.clone().unwrap_or_else(|| self.expr(2))
            };
            if self.r.below(6) == 0 && !agg {
                parts.push(e);
            } else {
                parts.push(format!("{name} = {e}"));
                names.push(name);
            }
        }
        (format!("{{{}}}", parts.join(", ")), names)
    }

    fn source(&mut self) -> String {
        match self.r.below(10) {
            0 => {
                self.cols = vec!["a".into(), "b".into(), "c".into()];
                "from_text format:json '[{\"a\": 1, \"b\": \"x\", \"c\": null}, {\"a\": 2, \"b\": \"y\", \"c\": 3}]'".into()
            }
            1 => {
                self.cols = vec!["b".into(), "a".into(), "m".into()];
                "from_text format:json '{\"columns\": [\"b\", \"a\", \"m\"], \"data\": [[1, \"x\", false], [4, \"y\", null]]}'".into()
            }
            2 => {
                self.cols = vec!["k".into(), "x".into(), "y".into()];
                "from [{k = 1, x = 2, y = 3}, {k = 4, x = 5, y = 6}]".into()
            }
            3 => {
                self.cols = vec!["a".into(), "b".into()];
                "from_text format:csv \"\"\"\na,b\n1,2\n3,4\n\"\"\"".into()
            }
            4 => {
                let t = self.r.pick(TABLES).to_string();
                self.cols = Vec::new();
                format!("from e = {t}")
            }
            _ => {
                let t = self.r.pick(TABLES).to_string();
                self.cols = Vec::new();
                format!("from {t}")
            }
        }
    }

    fn transform(&mut self, lets: &[String], corpus: &Corpus) -> String {
        match self.r.below(22) {
            0 | 1 | 2 => {
                let (a, names) = self.assigns(1, 3, false);
                self.cols.extend(names);
                format!("derive {a}")
            }
            3 | 4 => {
                if self.r.below(3) == 0 {
                    let (a, names) = self.assigns(1, 3, false);
                    self.cols = names;
                    format!("select {a}")
                } else {
                    let l = self.col_list(1, 4);
                    self.cols = l.clone();
                    format!("select {{{}}}", l.join(", "))
                }
            }
            5 => {
                let l = self.col_list(1, 2);
                self.cols.retain(|c| !l.contains(c));
                format!("select !{{{}}}", l.join(", "))
            }
            6 | 7 => format!("filter {}", self.expr(2)),
            8 | 9 => {
                let l: Vec<String> = self
                    .col_list(1, 3)
                    .into_iter()
                    .map(|c| if self.r.below(3) == 0 { format!("-{c}") } else { c })
                    .collect();
                format!("sort {{{}}}", l.join(", "))
            }
            10 => format!("take {}", self.r.range(1, 20)),
            11 => format!("take {}..{}", self.r.range(1, 5), self.r.range(5, 20)),
            12 | 13 => {
                let by = self.col_list(1, 2);
                let (a, names) = self.assigns(1, 3, true);
                let mut nc = by.clone();
                nc.extend(names);
                self.cols = nc;
                format!("group {{{}}} (aggregate {a})", by.join(", "))
            }
            14 => {
                let by = self.col_list(1, 2);
                let s = self.col();
                format!("group {{{}}} (sort {s} | take {})", by.join(", "), self.r.range(1, 3))
            }
            15 => {
                let n = self.newname();
                let c = self.col();
                let s = self.col();
                self.cols.push(n.clone());
                match self.r.below(3) {
                    0 => format!("window rows:-2..0 (sort {s} | derive {n} = sum {c})"),
                    1 => format!("group {c} (sort {s} | derive {n} = row_number this)"),
                    _ => format!("sort {s} | derive {n} = lag 1 {c}"),
                }
            }
            16 | 17 => {
                let side = *self.r.pick(&["", "side:left ", "side:full ", "side:right "]);
                let alias = *self.r.pick(&["j", "l", "o", "e2"]);
                let other = if !lets.is_empty() && self.r.below(2) == 0 {
                    self.r.pick(lets).to_string()
                } else if self.r.below(4) == 0 {
                    "[{q = 1, k = 2}]".to_string()
                } else {
                    self.r.pick(TABLES).to_string()
                };
                let cond = match self.r.below(4) {
                    0 => format!("=={}", self.col()),
                    1 => format!("this.{} == that.{}", self.col(), self.r.pick(COLS)),
                    2 => format!("{} == {alias}.{}", self.col(), self.r.pick(COLS)),
                    _ => "true".to_string(),
                };
                self.cols.push(format!("{alias}.{}", self.r.pick(COLS)));
                format!("join {side}{alias} = {other} ({cond})")
            }
            18 => {
                let (a, names) = self.assigns(1, 3, true);
                self.cols = names;
                format!("aggregate {a}")
            }
            19 => {
                let other = if !lets.is_empty() && self.r.below(2) == 0 {
                    self.r.pick(lets).to_string()
                } else {
                    self.r.pick(TABLES).to_string()
                };
                format!("append {other}")
            }
            20 => "select this".to_string(),
            _ => {
                if corpus.lines.is_empty() {
                    "take 3".into()
                } else {
                    self.r.pick(&corpus.lines).clone()
                }
            }
        }
    }

    fn pipeline(&mut self, lets: &[String], corpus: &Corpus, len: usize) -> Vec<String> {
        let mut v = vec![if !lets.is_empty() && self.r.below(3) == 0 {
            self.cols = Vec::new();
            format!("from {}", self.r.pick(lets))
        } else {
            self.source()
        }];
        for _ in 0..len {
            v.push(self.transform(lets, corpus));
        }
        v
    }
}

/// A generated single-file program.
pub fn gen_program(r: &mut Rng, corpus: &Corpus) -> String {
    let bad = *r.pick(&[0usize, 0, 3, 10, 30]);
    let mut g = PGen {
        r,
        cols: Vec::new(),
        bad,
    };
    let mut out = String::new();
    if g.r.below(12) == 0 {
        let d = g.r.pick(DIALECTS).to_string();
        out.push_str(&format!("prql target:{d}\n\n"));
    }
    // functions with several named parameters
    let mut funcs = Vec::new();
    if g.r.below(4) == 0 {
        out.push_str("let f = func a:4 b:5 c:6 z -> z + a + b + c\n");
        funcs.push("f");
    }
    let mut lets: Vec<String> = Vec::new();
    let nlets = *g.r.pick(&[0usize, 0, 0, 1, 1, 2, 3]);
    for i in 0..nlets {
        let name = format!("{}{}", g.r.pick(&["tab", "cte", "x", "sub"]), i);
        let len = g.r.range(0, 3);
        let p = g.pipeline(&lets.clone(), corpus, len);
        out.push_str(&format!("let {name} = (\n  {}\n)\n", p.join("\n  ")));
        lets.push(name);
    }
    if g.r.below(10) == 0 {
        out.push_str("module m {\n  let two = 2\n  let inc = func by:1 x -> x + by\n  let src = (from t | select {a, b})\n}\n");
        lets.push("m.src".into());
    }
    let len = g.r.range(1, 9);
    let mut p = g.pipeline(&lets, corpus, len);
    if !funcs.is_empty() {
        let c = g.col();
        let variants = [
            format!("derive fz = (f c:1 a:2 {c})"),
            format!("derive fz = (f b:7 c:1 a:2 {c})"),
            format!("derive fz = (f a:2 b:1 {c})"),
        ];
        p.push(g.r.pick(&variants).clone());
    }
    if lets.iter().any(|l| l == "m.src") && g.r.below(2) == 0 {
        p.push(format!("derive mm = (m.inc by:m.two {})", g.col()));
    }
    out.push_str(&p.join("\n"));
    out.push('\n');
    out
}

/// Splice: mutate a corpus program by line-level edits (drop, duplicate, swap,
/// insert a harvested transform, rename a column to another known word).
pub fn splice_program(r: &mut Rng, corpus: &Corpus) -> String {
    let base = r.pick(&corpus.programs).clone();
    let mut lines: Vec<String> = base.lines().map(|s| s.to_string()).collect();
    let edits = r.range(1, 3);
    for _ in 0..edits {
        if lines.is_empty() {
            break;
        }
        let i = r.below(lines.len());
        match r.below(6) {
            0 => {
                lines.remove(i);
            }
            1 => {
                let l = lines[i].clone();
                lines.insert(i, l);
            }
            2 => {
                let j = r.below(lines.len());
                lines.swap(i, j);
            }
            3 | 4 => {
                if !corpus.lines.is_empty() {
                    lines.insert(i + 1, r.pick(&corpus.lines).clone());
                }
            }
            _ => {
                let from = *r.pick(COLS);
                let to = *r.pick(COLS);
                lines[i] = replace_word(&lines[i], from, to);
            }
        }
    }
    let mut s = lines.join("\n");
    s.push('\n');
    s
}

fn replace_word(s: &str, from: &str, to: &str) -> String {
    let mut out = String::new();
    let mut word = String::new();
    let flush = |w: &mut String, out: &mut String| {
        if w == from {
            out.push_str(to);
        } else {
            out.push_str(w);
        }
        w.clear();
    };
    for c in s.chars() {
        if c.is_alphanumeric() || c == '_' {
            word.push(c);
        } else {
            flush(&mut word, &mut out);
            out.push(c);
        }
    }
    flush(&mut word, &mut out);
    out
}


// ------------------------------------------------------------------ templates

/// Hand-written shapes, randomly parametrised, each built so that some hash
/// container inside the compiler holds two or more candidates whose order can
/// reach the output.
pub fn tpl_program(r: &mut Rng) -> String {
    let t = r.pick(TABLES).to_string();
    let u = r.pick(TABLES).to_string();
    let mut cs: Vec<&str> = COLS.to_vec();
    r.shuffle(&mut cs);
    let (c1, c2, c3, c4) = (cs[0], cs[1], cs[2], cs[3]);
    let n = r.range(2, 9);
    // shapes that took outside eyes to discover get extra weight
    let shape = match r.below(33) {
        31 | 32 => return ragged_literal(r),
        28..=30 => return wide_program(r),
        26 | 27 => 103,
        24 | 25 => 102,
        22 | 23 => 101,
        16 | 17 | 18 => 15,
        19 => 0,
        20 => 4,
        21 if r.below(3) == 0 => 100,
        21 => 7,
        x => x,
    };
    match shape {
        // let-tables of the same name in two or three modules, each one a CTE of the query
        // (they all ask for the same CTE name), with or without a database table of that name
        103 => {
            let nm = *r.pick(&["x", "base", "orders", "t"]);
            let k = r.range(2, 4);
            let mods = ["ma", "mb", "mc"];
            let mut out = String::new();
            for (j, m) in mods.iter().take(k).enumerate() {
                let body = match r.below(3) {
                    0 => format!("from {t}{j} | take {}", n + j),
                    1 => format!("from {u}{j} | sort {c1} | take {}", n + j),
                    _ => format!("from {t}{j} | group {c2} (take 1)"),
                };
                out.push_str(&format!("module {m} {{ let {nm} = ({body}) }}\n"));
            }
            let first = if r.below(3) == 0 { nm.to_string() } else { format!("{}.{nm}", mods[0]) };
            out.push_str(&format!("from {first}\n"));
            for m in mods.iter().take(k).skip(if first == nm { 0 } else { 1 }) {
                out.push_str(&format!("join {m}.{nm} (=={c1})\n"));
            }
            if r.below(2) == 0 {
                out.push_str(&format!("take {n}\n"));
            }
            out
        }
        // a program that fails *late*: the SQL backend has already turned one or two
        // let-tables into CTEs when it meets a set operation most dialects cannot express
        // (EXCEPT ALL / INTERSECT ALL); whatever the translation had built by then must not
        // outlive the call
        102 => {
            let m = r.range(2, 9);
            // every relation keeps an open column list, so that the set operations type-check
            let g1 = match r.below(3) {
                0 => format!("from {t} | take {n}"),
                1 => format!("from {t} | sort {c1} | take {n}"),
                _ => format!("from {t} | filter {c2} > {n} | take {n}"),
            };
            let setop = *r.pick(&["remove", "intersect"]);
            let bad = match r.below(3) {
                0 => format!("from {u} | {setop} {t}"),
                1 => format!("from {u} | filter {c1} != null | {setop} {t}"),
                _ => format!("from {u} | take {m} | {setop} {t}"),
            };
            let tail = match r.below(4) {
                0 => "from good\nappend bad".to_string(),
                1 => "from good\nappend other\nappend bad".to_string(),
                2 => format!("from good\njoin b = bad (=={c1})\nselect {{good.{c1}, b.{c2}}}"),
                _ => format!("from other\nappend good\nappend bad\ntake {m}"),
            };
            // half of them name a dialect without EXCEPT ALL / INTERSECT ALL in their header
            let header = match r.below(6) {
                0 => "prql target:sql.sqlite\n",
                1 => "prql target:sql.mssql\n",
                2 => "prql target:sql.duckdb\n",
                _ => "",
            };
            format!("{header}let good = ({g1})\nlet other = (from {u} | take {m})\nlet bad = ({bad})\n{tail}\n")
        }
        // many columns: more than eight in a select, a partition, a sort, an exclusion list
        101 => {
            let k = r.range(9, 14);
            let all: Vec<String> = (0..k).map(|i| format!("{}{}", cs[i % cs.len()], if i >= cs.len() { "_2" } else { "" })).collect();
            let sel = all.join(", ");
            let part = all[..k - 1].join(", ");
            match r.below(4) {
                0 => format!("from {t} | select {{{sel}}} | group {{{part}}} (take 1)\n"),
                1 => format!("from {t} | select {{{sel}}} | group {{{part}}} (sort {{{}}} | take 1) | sort {{{part}}}\n", all[k - 1]),
                2 => format!("from {t} | select !{{{sel}}} | join {u} (=={c1}) | select !{{{part}}} | take {n}\n"),
                _ => format!("from {t} | derive {{{}}} | group {{{part}}} (aggregate {{n = count this}}) | sort {{{part}}} | take {n}\n", all.iter().map(|c| format!("{c}_x = {c}")).collect::<Vec<_>>().join(", ")),
            }
        }
        // an expression whose one-line rendering is wider than 65 535 columns (whatever
        // renders it for a message or a log record must cope)
        100 => {
            let a = "a".repeat(r.range(33_000, 40_000));
            let b = "b".repeat(r.range(33_000, 40_000));
            match r.below(3) {
                0 => format!("let f = x -> x + \"{a}\" + \"{b}\"\nfrom {t} | select {{y = f {c1}}}\n"),
                1 => format!("from {t} | derive {{w = \"{a}\" + \"{b}\"}} | filter w == {c1} | select {{{c2}, w}}\n"),
                _ => format!("from {t} | filter {c1} == \"{a}\" + \"{b}\" + nope_{n}\n"),
            }
        }
        // a sorted CTE referenced twice or three times (sort column not in its select)
        0 => {
            let third = if r.below(2) == 0 {
                format!(" | join c = srt (=={c2})")
            } else {
                String::new()
            };
            let sel = if r.below(2) == 0 {
                format!("select {{a.{c3}, s2 = b.{c3}}}")
            } else {
                format!("select {{b.{c3}, a.{c2}}}")
            };
            let inner_take = if r.below(3) == 0 { format!(" | take {n}") } else { String::new() };
            format!("let srt = (from {t} | sort {{{c1}, -{c4}}}{inner_take} | select {{{c2}, {c3}}})\nfrom a = srt | join b = srt (=={c2}){third} | {sel}\n")
        }
        // the same CTE used by the main pipeline and by another CTE
        1 => format!(
            "let base = (from {t} | sort {c1} | select {{{c2}, {c3}}})\nlet top = (from base | take {n})\nfrom a = base | join side:left b = top (=={c2}) | select {{a.{c3}, t2 = b.{c3}}}\n"
        ),
        // several aliases of one column, then a sort that must pick one of them
        2 => {
            let keep = match r.below(3) {
                0 => "{p, q}",
                1 => "{q}",
                _ => "{q, p, w}",
            };
            format!("from {t} | sort {c1} | derive {{p = {c1}, q = {c1}, w = {c1}}} | select {keep} | take {n}\n")
        }
        // join chain of tables sharing column names, wildcard expansion
        3 => format!(
            "from {t} | derive s = 1 | join l = [{{q = 1, {c2} = 2}}] ({c1} == l.q) | join j = [{{k = 1, {c2} = 3}}] ({c3} == j.k) | select this\n"
        ),
        // clashing names at a pipeline split, next to columns that have no name at all
        // (generated names for both kinds come from one counter)
        4 => {
            let mut items: Vec<String> = vec![
                format!("a.{c1}"),
                format!("b.{c1}"),
                format!("a.{c2}"),
                format!("b.{c2}"),
                format!("b.{c3}"),
            ];
            for j in 0..r.below(4) {
                items.push(match r.below(3) {
                    0 => format!("a.{c3} + b.{c4}"),
                    1 => format!("{} * b.{c2}", j + 2),
                    _ => format!("a.{c4} - {n}"),
                });
            }
            if r.below(2) == 0 {
                r.shuffle(&mut items);
            }
            let tail = match r.below(3) {
                0 => format!("filter b.{c3} > 1"),
                1 => format!("filter {c3} > 1"),
                _ => format!("sort {{b.{c3}}} | take 2"),
            };
            format!("from a = {t} | join b = {u} (=={c1}) | select {{{}}} | take {n} | {tail}\n", items.join(", "))
        }
        // self join of a let table with clashing names, then split
        5 => format!(
            "let lt = (from {t} | select {{{c1}, {c2}, {c3}}})\nfrom a = lt | join b = lt (=={c1}) | select {{a.{c1}, a.{c2}, b.{c1}, b.{c2}}} | take {n} | sort {{-a.{c2}}} | join c = lt (a.{c1} == c.{c1})\n"
        ),
        // named arguments, several orders
        6 => {
            let mut args = if r.below(3) == 0 {
                // some of them unknown to `f`
                vec!["a:1", "zz:2", "yy:3", "d:4", "ww:5"]
            } else {
                vec!["a:1", "b:2", "c:3", "d:4"]
            };
            r.shuffle(&mut args);
            let k = r.range(2, 4);
            format!(
                "let f = func a:4 b:5 c:6 d:7 z -> z + a + b + c + d\nfrom {t} | derive fz = (f {} {c1}) | window rows:-{n}..0 (sort {c2} | derive rs = sum {c3})\n",
                args[..k].join(" ")
            )
        }
        // group with several sorts across splits
        7 => format!(
            "from {t} | sort {c1} | group {c2} (sort {{-{c3}}} | take 1) | sort {{{c4}, -{c1}}} | take {n} | derive {{m1 = {c1}, m2 = {c1}}} | select {{m2, m1, {c2}}}\n"
        ),
        // append / remove / intersect with wildcards and exclusions
        8 => {
            let op = *r.pick(&["append", "remove", "intersect"]);
            format!(
                "let l = (from {t} | select !{{{c1}, {c2}}})\nlet m = (from {u} | select !{{{c2}, {c3}}})\nfrom l | {op} m | {op} l | take {n}\n"
            )
        }
        // JSON relation literal with many keys
        9 => format!(
            "from_text format:json '[{{\"{c1}\": 1, \"{c2}\": 2, \"{c3}\": 3, \"{c4}\": 4, \"zz\": 5}}, {{\"{c1}\": 6, \"{c2}\": 7, \"{c3}\": 8, \"{c4}\": 9, \"zz\": 0}}]'\nselect {{{c4}, {c1}, zz}} | filter nope_{n} > 1\n"
        ),
        // several interpolations, s-string table
        10 => format!(
            "from s\"SELECT * FROM {t} WHERE x > {{{n}}}\" | derive {{i1 = s\"CONCAT({{{c1}}}, {{{c2}}}, {{{c3}}})\", i2 = f\"{{{c1}}}-{{{c2}}}-{{{c3}}}\"}} | sort i1 | select {{i2, i1}}\n"
        ),
        // ambiguous / unknown names with many candidates
        11 => format!(
            "from a = {t} | join b = {u} (=={c1}) | join c = {t} (a.{c1} == c.{c1}) | derive {{{c2} = a.{c2}, {c3} = b.{c3}}} | select {{{c2}, {c3}, {c4}, {c1}}}\n"
        ),
        // modules and functions
        12 => format!(
            "module mm {{\n  let k = {n}\n  let fa = func by:1 other:2 x -> x + by + other\n  let ta = (from {t} | select {{{c1}, {c2}}})\n  module inner {{ let tb = (from {u} | sort {c3} | select {{{c1}}}) }}\n}}\nfrom mm.ta | join i = mm.inner.tb (=={c1}) | derive y = (mm.fa other:mm.k by:3 {c2})\n"
        ),
        // loop
        13 => format!(
            "from [{{n = 1, {c1} = 2}}] | loop (filter n < {n} | select {{n = n + 1, {c1} = {c1} * 2}}) | sort {{-n}} | derive {{d1 = n, d2 = n}} | select {{d2, d1}}\n"
        ),
        // query header with several (some unknown) arguments
        14 if r.below(2) == 0 => {
            let mut args = vec!["version:\"0.13\"", "target:sql.postgres", "zz:1", "yy:2", "ww:\"a\""];
            r.shuffle(&mut args);
            let k = r.range(2, 5);
            format!("prql {}\n\nfrom {t} | select {{{c1}, {c2}}} | take {n}\n", args[..k].join(" "))
        }
        // two errors in one source
        14 => format!("from {t} | select {{{c1}, }} | filter ( | derive = 3\nfrom {u} | select {{nope + }}\n"),
        // several partition keys behind a pipeline split, keys dropped by a later select
        15 if r.below(4) != 0 => {
            if r.below(2) == 0 {
                // the same column in partition and sort, behind a split
                return match r.below(3) {
                    0 => format!(
                        "from {t} | take {n}0 | group {c1} (sort {{{c1}, {c2}}} | derive {{r = row_number this, lg = lag 1 {c2}}}) | select {{{c3}, r, lg}}\n"
                    ),
                    1 => format!("from {t} | take {n}0 | group {c1} (sort {{{c1}, {c2}}} | derive {{r = row_number this}}) | select {{{c3}, r}}\n"),
                    _ => format!("from {t} | take {n}00 | group {c1} (sort {{{c1}, -{c2}}} | take 3) | select {{{c3}}}\n"),
                };
            }
            let body = match r.below(3) {
                0 => format!("sort {c4} | take 2"),
                1 => format!("sort {{-{c4}}} | derive {{rk = rank {c4}, rs = sum {c4}}}"),
                _ => format!("window rows:-1..1 (sort {c4} | derive ma = average {c4})"),
            };
            let pre = match r.below(3) {
                0 => format!("take {n}0"),
                1 => format!("aggregate {{{c1} = min {c1}, {c2} = min {c2}, {c3} = min {c3}, {c4} = sum {c4}}}"),
                _ => format!("filter {c4} > {n} | take {n}00"),
            };
            format!("from {t} | {pre} | group {{{c1}, {c2}, {c3}}} ({body}) | select {{{c4}}}\n")
        }
        // window functions with the same sort in two partitions
        _ => format!(
            "from {t} | group {{{c1}, {c2}}} (sort {c3} | derive {{rk = rank {c3}, rn = row_number this, lg = lag 1 {c4}}}) | sort {{{c1}, rk}} | select {{{c1}, rk, rn, lg}} | take {n}\n"
        ),
    }
}


/// Tokens that cannot be broken (string literals, long names) of several widths next to lists
/// that can (tuples, pipelines): whatever lays source text out — `pl_to_prql`, a declaration
/// printed in a message — has to widen its line for the former and wrap the latter, and must
/// do so in the same way whatever it laid out before (seeded changes S24, S58).
pub fn wide_program(r: &mut Rng) -> String {
    fn width(r: &mut Rng) -> usize {
        match r.below(8) {
            0 => r.range(30, 45),
            1 => r.range(52, 58),
            2 => r.range(60, 75),
            3 => r.range(100, 115),
            4 => r.range(160, 175),
            5 => r.range(250, 262),
            6 => r.range(370, 400),
            _ => r.range(560, 1300),
        }
    }
    const LONG_COLS: &[&str] = &[
        "first_name", "last_name", "department", "salary", "hire_date", "title", "manager_id", "country", "city",
        "postal_code", "phone", "email", "birth_date", "updated_at",
    ];
    let t = r.pick(TABLES).to_string();
    let mut out = String::new();
    for j in 0..r.below(3) {
        let w = width(r);
        match r.below(3) {
            0 => out.push_str(&format!("let s{j} = \"{}\"\n", "q".repeat(w))),
            1 => out.push_str(&format!("let f{j} = x -> x == \"{}\"\n", "w".repeat(w))),
            _ => out.push_str(&format!("let t{j} = (from {t} | filter note != \"{}\" | select {{id, note, kind, amount}})\n", "e".repeat(w))),
        }
    }
    let mut cols: Vec<&str> = LONG_COLS.to_vec();
    r.shuffle(&mut cols);
    let k = r.range(5, 13);
    let tuple = cols[..k].join(", ");
    let w = width(r);
    let lit = "a".repeat(w);
    match r.below(4) {
        0 => out.push_str(&format!("from {t}\nfilter name == \"{lit}\"\nselect {{{tuple}}}\n")),
        1 => out.push_str(&format!("from {t} | filter name == \"{lit}\" | select {{{tuple}}} | sort {{{}}} | take {}\n", cols[0], r.range(2, 40))),
        2 => out.push_str(&format!("from {t}\nderive {{tag = \"{lit}\", {}}}\nselect {{tag, {tuple}}}\n", cols[..3].iter().map(|c| format!("{c}_2 = {c}")).collect::<Vec<_>>().join(", "))),
        _ => out.push_str(&format!("from {t}\nselect {{{tuple}}}\nfilter {} != \"{lit}\" && {} != \"{}\"\n", cols[0], cols[1], "b".repeat(width(r)))),
    }
    out
}

/// A panic that reaches the boundary of an `extern "C"` function aborts the process (it cannot
/// unwind into a C host), so a panic *fault* injected into a call through the C binding would
/// kill the simulated process by construction; such calls get none. (Programs that panic for
/// real abort their reference context too and are dropped from histories like any other
/// program whose reference context dies.)
fn no_panic_fault_across_ffi(p: &mut Plan) {
    for c in p.threads.iter_mut().flatten().chain(p.sentinel.iter_mut()) {
        if matches!(c.op, Op::CApi { .. }) {
            c.panic_at = None;
        }
    }
}

/// A relation literal of two to four rows over a small pool of field names; rows after the
/// first drop, add, rename, reorder or un-name fields. Used as a source, a let-table, and the
/// right-hand side of join / append.
pub fn ragged_literal(r: &mut Rng) -> String {
    let pool = ["a", "b", "c", "d", "x", "y", "z", "w"];
    let width = r.range(2, 5);
    let mut first: Vec<&str> = pool.to_vec();
    r.shuffle(&mut first);
    first.truncate(width);
    let mut val = 0;
    let mut row = |names: &[Option<&str>]| -> String {
        let fs: Vec<String> = names
            .iter()
            .map(|n| {
                val += 1;
                match n {
                    Some(n) => format!("{n} = {val}"),
                    None => format!("{val}"),
                }
            })
            .collect();
        format!("{{{}}}", fs.join(", "))
    };
    let mut rows = vec![row(&first.iter().map(|n| Some(*n)).collect::<Vec<_>>())];
    for _ in 0..r.range(1, 3) {
        let mut names: Vec<Option<&str>> = first.iter().map(|n| Some(*n)).collect();
        for _ in 0..r.range(0, 3) {
            match r.below(6) {
                // two or three fields the first row does not have
                0 => {
                    let mut extra: Vec<&str> = pool.iter().copied().filter(|p| !first.contains(p)).collect();
                    r.shuffle(&mut extra);
                    let k = r.range(2, 3).min(extra.len());
                    let at = names.len().saturating_sub(k);
                    for (j, e) in extra.iter().take(k).enumerate() {
                        if at + j < names.len() {
                            names[at + j] = Some(e);
                        } else {
                            names.push(Some(e));
                        }
                    }
                }
                // drop one to three fields
                1 => {
                    for _ in 0..r.range(1, 3) {
                        if names.len() > 1 {
                            let i = r.below(names.len());
                            names.remove(i);
                        }
                    }
                }
                // add fields
                2 => {
                    for p in pool.iter().filter(|p| !first.contains(p)).take(r.range(1, 3)) {
                        names.push(Some(p));
                    }
                }
                3 => r.shuffle(&mut names),
                4 => {
                    let i = r.below(names.len());
                    names[i] = None;
                }
                _ => {}
            }
        }
        rows.push(row(&names));
    }
    let lit = format!("[{}]", rows.join(", "));
    let t = r.pick(TABLES);
    let f0 = first[0];
    match r.below(5) {
        0 => format!("from {lit}\n"),
        1 => format!("from {lit} | select {{{f0}}} | sort {f0} | take {}\n", r.range(1, 9)),
        2 => format!("let lit = {lit}\nfrom {t} | join l = lit ({t}.id == l.{f0}) | select {{{t}.id, l.{f0}}}\n"),
        3 => format!("from {lit} | append {lit}\n"),
        _ => format!("let lit = {lit}\nfrom lit | derive q = {f0} + 1 | filter q > 2\n"),
    }
}

/// Does the text hold a token of more than fifty columns that no formatter can break?
pub fn is_wide(src: &str) -> bool {
    let mut run = 0usize;
    let mut last = '\0';
    for ch in src.chars() {
        if ch == last && ch.is_ascii_alphabetic() {
            run += 1;
            if run >= 28 {
                return true;
            }
        } else {
            run = 0;
            last = ch;
        }
    }
    false
}

/// Programs that are *wrong* in ways that make the compiler enumerate candidates,
/// arguments or columns in its message — error text is a claimed output, and messages
/// assembled from hash containers were four of the findings.
/// names declared by the standard library, with or without their module
const STD_NAMES: &[&str] = &[
    "min", "max", "sum", "average", "count", "stddev", "first", "last", "lag", "lead", "rank", "rank_dense",
    "row_number", "every", "any", "all", "concat_array", "round", "as", "in", "text.lower", "text.upper",
    "text.ltrim", "text.rtrim", "text.trim", "text.length", "text.extract", "text.replace", "text.starts_with",
    "text.ends_with", "text.contains", "math.floor", "math.ceil", "math.round", "math.abs", "math.sin", "math.cos",
    "math.tan", "math.asin", "math.acos", "math.atan", "math.exp", "math.ln", "math.log", "math.log10", "math.sqrt",
    "math.pow", "math.pi", "math.degrees", "math.radians", "date.to_text", "gt", "gte", "lt", "lte", "eq", "ne", "add",
    "sub", "mul", "div_i", "div_f", "mod", "and", "or", "coalesce", "neg", "not",
];

/// One slip of the finger in the last segment of a (possibly qualified) name.
fn typo(name: &str, r: &mut Rng) -> String {
    let (prefix, last) = match name.rfind('.') {
        Some(i) => (&name[..=i], &name[i + 1..]),
        None => ("", name),
    };
    let mut cs: Vec<char> = last.chars().collect();
    let letter = (b'a' + r.below(26) as u8) as char;
    let pos = if r.below(2) == 0 || cs.len() < 2 { 0 } else { r.below(cs.len()) };
    match r.below(4) {
        0 => cs[pos] = letter,
        1 if cs.len() > 2 => {
            cs.remove(pos);
        }
        2 => cs.insert(pos, letter),
        _ if cs.len() >= 2 => {
            let p = pos.min(cs.len() - 2);
            cs.swap(p, p + 1);
        }
        _ => cs.push(letter),
    }
    format!("{prefix}{}", cs.into_iter().collect::<String>())
}

pub fn err_program(r: &mut Rng) -> String {
    let t = r.pick(TABLES).to_string();
    let u = r.pick(TABLES).to_string();
    let mut cs: Vec<&str> = COLS.to_vec();
    r.shuffle(&mut cs);
    let (c1, c2, c3, c4) = (cs[0], cs[1], cs[2], cs[3]);
    let n = r.range(2, 9);
    match r.below(50) {
        // relation literals whose rows do not agree: fields missing, extra, renamed, reordered
        // or unnamed relative to the first row (whatever checks or aligns rows enumerates names)
        44..=46 => ragged_literal(r),
        // the same named argument given twice, for one, two or three different names, in a
        // function call, a transform or the `prql` header (several errors on one span)
        47..=49 => {
            let names = ["n", "m", "k", "side", "rows", "range", "by"];
            let k = r.range(1, 3);
            let mut args = Vec::new();
            let mut idx: Vec<usize> = (0..names.len()).collect();
            r.shuffle(&mut idx);
            for j in 0..k {
                let nm = names[idx[j]];
                for rep in 0..r.range(2, 3) {
                    args.push(format!("{nm}:{}", j * 3 + rep + 1));
                }
            }
            if r.below(2) == 0 {
                r.shuffle(&mut args);
            }
            let a = args.join(" ");
            match r.below(5) {
                0 => format!("from {t} | derive r = (round {c1} {a})\n"),
                1 => format!("let f = func n:1 m:2 k:3 x -> x + n + m + k\nfrom {t} | derive y = (f {a} {c1}) | select {{y, {c2}}}\n"),
                2 => format!("from {t} | join {a} {u} (=={c1}) | take {n}\n"),
                3 => format!("prql {a} target:sql.generic\n\nfrom {t} | select {{{c1}}}\n"),
                _ => format!("from {t} | window {a} (derive s = sum {c1}) | sort {c2} {a}\n"),
            }
        }
        // near-miss names: a name that is one slip away from one, two or three declared names
        // (a "did you mean" list, a candidate search) in function, transform and column position
        38 | 39 => {
            let base: &str = *r.pick(STD_NAMES);
            let f = typo(base, r);
            match r.below(3) {
                0 => format!("from {t} | derive {{x = ({f} {c1})}}\n"),
                1 => format!("from {t} | aggregate {{x = {f} {c1}, y = sum {c2}}}\n"),
                _ => format!("from {t} | filter ({f} {c1} {n}) | select {{{c2}}}\n"),
            }
        }
        40 => {
            let k = r.range(3, 9);
            match r.below(3) {
                0 => format!("let rate1 = x -> x * 2\nlet rate2 = x -> x * 3\nfrom {t} | derive y = (rate{k} {c1})\n"),
                1 => format!("let tab_a = (from {t})\nlet tab_b = (from {u})\nlet tab_c = (from {t} | take {n})\nfrom tab_{k} | select {{{c1}}}\n"),
                // numbered siblings inside a module, short and long (a suggestion filter may
                // ignore names of one or two characters, S80)
                _ if k % 2 == 0 => format!("module m {{ let f1 = x -> x + 1\n let f2 = x -> x + 2 }}\nfrom {t} | derive y = (m.f{k} {c1})\n"),
                _ => format!("module m {{ let rate1 = x -> x + 1\n let rate2 = x -> x + 2\n let scale = x -> x * 2 }}\nfrom {t} | derive y = (m.rate{k} {c1})\n"),
            }
        }
        41 => {
            let base: &str = *r.pick(&["select", "derive", "filter", "group", "aggregate", "sort", "take", "join", "window", "append", "intersect", "remove", "from"]);
            let w = typo(base, r);
            format!("from {t}\n{w} {{{c1}, {c2}}}\n")
        }
        42 | 43 => {
            let k = r.range(3, 9);
            format!("from {t} | select {{{c1}_1 = {c1}, {c1}_2 = {c2}, {c3}}} | filter {c1}_{k} > {n} | sort {{{c3}x}}\n")
        }
        0 => format!("from {t} | select {{{c1}, {c2}, {c3}}} | derive {{{c4} = {c1}}} | filter zz_{n} > 1\n"),
        1 if r.below(2) == 0 => format!("from a = {t} | join b = {u} (=={c1}) | join c = {t} (=={c1}) | select {{{c1}, {c2}}}\n"),
        // a bare name that two to eight relations could supply (the message lists candidates)
        1 => {
            let k = r.range(2, 8);
            let names = ["a", "b", "c", "d", "e", "f2", "g", "h"];
            let mut out = format!("from {} = {t}\n", names[0]);
            for j in 1..k {
                let tab = if r.below(2) == 0 { t.as_str() } else { u.as_str() };
                if r.below(2) == 0 {
                    out.push_str(&format!("join {} = {tab} ({}.{c1} == {}.{c1})\n", names[j], names[0], names[j]));
                } else {
                    out.push_str(&format!("join side:left {} = {tab} ({}.id == {}.id)\n", names[j], names[j - 1], names[j]));
                }
            }
            match r.below(3) {
                0 => out.push_str(&format!("select {c2}\n")),
                1 => out.push_str(&format!("filter {c2} > {n}\nselect {{a.{c1}, {c3}}}\n")),
                _ => out.push_str(&format!("derive {{z = {c2} + {c3}}}\nsort z\n")),
            }
            out
        }
        2 => format!("from {t} | sort {c1} foo:{n} bar:2 baz:3\n"),
        3 => format!("from {t} | take {n} extra:1 more:2\n"),
        4 => format!("let f = func a:1 b:2 x -> x + a + b\nfrom {t} | derive y = (f q:1 r:2 s:3 {c1})\n"),
        5 => format!("prql aa:1 bb:2 cc:3\nfrom {t}\n"),
        6 => format!("prql target:sql.nosuch_{n}\nfrom {t} | select {{{c1}}}\n"),
        7 => format!("prql version:\"{n}9.1\"\nfrom {t}\n"),
        8 => format!("from {t} | select {{{c1}, {c2}}} | append (from {u} | select {{{c1}, {c2}, {c3}}})\n"),
        9 => format!("from {t} | select !{{{c1}, {c2}, {c3}}} | append (from {u} | select {{x1 = 1}})\n"),
        10 => format!("let {c1} = (from {t})\nlet {c1} = (from {u})\nfrom {c1}\n"),
        11 => format!("from {t} | group {{{c1}, {c2}}} (aggregate {{s = sum {c3}}}) | select {{{c3}, {c4}}}\n"),
        12 => format!("from {t} | derive {{x = {c1} + 'a', y = {c2} - true, z = -'q'}}\n"),
        13 => format!("from {t} | filter ({c1} | in 'a'..'b') | take 'x'\n"),
        14 => format!("from {t} | window rows:1 range:2 expanding:true rolling:3 (derive s = sum {c1})\n"),
        15 => format!("from s\"UPDATE {t} SET {c1} = {n}\" | select {{{c1}}}\n"),
        16 => format!("from_text format:json '[{{\"{c1}\": 1, \"{c2}\": 2}}, {{\"{c1}\": [1,2], \"zz\": 3}}]' | select {{{c3}}}\n"),
        17 => format!("from_text format:csv \"\"\"\n{c1},{c2},{c3}\n1,2\n3,4,5,6\n\"\"\"\n| select {{{c4}}}\n"),
        18 => format!("from {t} | loop (filter {c1} < {n} | select {{{c1} = {c1} + 1, extra_{n} = 2}})\n"),
        19 => format!("from {t} | derive {{a = case [{c1} > 1 => 'x', {c2} => 2]}} | select {{a, {c3}.nested, {c4}.*}}\n"),
        20 => format!("module m1 {{ let x = 1 }}\nmodule m2 {{ let x = 2 }}\nmodule m1 {{ let y = 3 }}\nfrom {t} | derive {{p = m1.x, q = m2.z, r = m3.x}}\n"),
        21 => format!("from {t} | join {u} ({c1} == {c2} == {c3}) | select {{{t}.{c1}, {u}.{c2}, nope.{c3}}}\n"),
        22 => format!("from {t} | select {{{c1} = {c1}, {c1} = {c2}, {c1} = {c3}}} | sort {{{c1}, +{c2}, -{c9}}}\n", c9 = c4),
        23 => format!("from {t} | aggregate {{a = sum {c1}, b = average {c2}}} | derive {{c = a + {c3}, d = b + {c4}}} | filter e > f\n"),
        // several named arguments that each fail while the call is expanded
        24 => format!("from {t}\nwindow rows:(=={n}) range:(=={t}.{c1}) expanding:(==1) (derive x = 1)\n"),
        25 => format!("let f = a:1 b:2 c:3 x -> x\nfrom {t}\nderive y = (f a:(=={n}) b:(=={t}.{c1}) c:(==2) {c2})\n"),
        26 => format!("from {t}\njoin side:(==1) foo:(=={u}.{c1}) {u} (=={c2})\n"),
        // a table / a module where a type is expected: the message prints the declaration
        27 => format!("let tt = (from {t} | select !{{{c1}, {c2}, {c3}}})\nlet v <tt> = {n}\nfrom {t}\n"),
        28 => format!("module m {{\n  let f = x -> (window rows:1..2 expanding:false range:1..3 x)\n  let b = (from {t} | select !{{{c1}, {c2}, {c3}, {c4}}})\n}}\ntype y = m\nfrom {t}\n"),
        29 => format!("let tt = (from {t} | select !{{{c1}, {c2}}} | join {u} (=={c3}))\nlet f = func p <tt> -> p\nfrom {t}\nderive q = (f {n})\n"),
        // malformed interpolated strings
        30 => format!("from {t} | derive {{x = s\"COALESCE({{{c1}}}, {{{c2}\", y = {c3}}}\n"),
        31 => format!("from {t} | derive {{x = f\"{{{c1}}}-{{}}-{{{c2}}}\"}} | select {{x, {c3}}}\n"),
        32 => format!("from {t} | filter s\"{{{c1}}} > {{ {n}\" | take {n}\n"),
        33 => format!("from s\"SELECT * FROM {t} WHERE {{}} = {{{c1}\" | select {{{c2}}}\n"),
        // lexer errors behind multi-byte text (byte offsets and character offsets differ)
        34 => format!("# été 日本語 🦀\nfrom {t} | derive {{x = 'straße', y = 'łódź{n}}} | select {{{c1}, \"unterminated}}\n"),
        35 => format!("from {t} | filter {c1} == 'naïve café {n}' | derive z = {c2} ^^ §{n} | take {n}\n"),
        36 => format!("from {t} # ↓ данные {n}\n| select {{`größe`, {c1}}} | filter {c2} == 'abc{n}\n"),
        _ => format!("let größe_{n} = 'ß' \nfrom {t} | derive {{a = \"ünï{n}\", b = {c1} @@ 3}}\n"),
    }
}

/// The same program dressed in text that is not plain ASCII: multi-byte characters before
/// and inside the code (columns and byte offsets part ways), CRLF line endings, tabs.
pub fn non_ascii_variant(src: &str, r: &mut Rng) -> String {
    let mut s = src.to_string();
    if r.below(2) == 0 {
        s = format!("# été — 日本語 🦀 ʼnaïve café\n{s}");
    }
    if r.below(2) == 0 {
        s = s.replacen("'x'", "'é𝄞x'", 2).replacen("\"x\"", "\"ßx\u{0301}\"", 2);
    }
    if r.below(3) == 0 {
        s = s.replace(" | ", "\t|\t");
    }
    if r.below(3) == 0 {
        s = s.replace('\n', "\r\n");
    }
    if r.below(3) == 0 {
        // a derived column with a non-ASCII name and literal, then whatever follows
        s = s.replacen("\n", "\n# ↓ данные\n", 1);
        s.push_str("derive {`größe` = 'straße' + 'łódź'}\n");
    }
    s
}

/// A near-duplicate of a program: same length, same beginning and end, one
/// small edit in between (what an editor re-compiling a buffer produces).
pub fn variant_of(src: &str, r: &mut Rng) -> String {
    let v = variant_once(src, r);
    // sometimes two edits: a slip fixed here, a letter changed there
    if r.below(3) == 0 {
        variant_once(&v, r)
    } else {
        v
    }
}

/// The typo moves: a stray character is fixed and the same slip is made further down (same
/// length, same bytes; the first error now lies behind the old one).
fn move_typo(src: &str, r: &mut Rng) -> Option<String> {
    let bytes = src.as_bytes();
    let i = bytes.iter().position(|b| matches!(b, b'^' | b'@' | b'$' | b'~'))?;
    let later: Vec<usize> = (i + 2..bytes.len()).filter(|&j| bytes[j] == b' ').collect();
    if later.is_empty() {
        return None;
    }
    let j = later[r.below(later.len())];
    let mut v = bytes.to_vec();
    v.swap(i, j);
    String::from_utf8(v).ok()
}

/// Same number of BYTES, other number of characters: a two- or three-byte letter becomes
/// as many ASCII letters somewhere in the text.
fn non_ascii_same_bytes(src: &str, r: &mut Rng) -> Option<String> {
    let idx: Vec<(usize, char)> = src
        .char_indices()
        .filter(|(_, c)| c.len_utf8() > 1 && c.len_utf8() < 4)
        .collect();
    if idx.is_empty() {
        return None;
    }
    let (i, c) = idx[r.below(idx.len())];
    let repl: String = "xyz".chars().take(c.len_utf8()).collect();
    let mut out = String::with_capacity(src.len());
    out.push_str(&src[..i]);
    out.push_str(&repl);
    out.push_str(&src[i + c.len_utf8()..]);
    Some(out)
}

/// The same program with one literal spelled differently: an integer with `_` separators
/// or in another radix (and back), a string in the other quote style. Tokens before the
/// literal keep their offsets.
fn respell(src: &str, r: &mut Rng) -> Option<String> {
    let b = src.as_bytes();
    let word = |c: u8| c.is_ascii_alphanumeric() || c == b'_';
    // (start, end, replacement)
    let mut cand: Vec<(usize, usize, String)> = Vec::new();
    let mut i = 0;
    while i < b.len() {
        let c = b[i];
        if c == b'\'' || c == b'"' {
            // a simple one-line string without escapes or the other quote inside
            if let Some(len) = b[i + 1..].iter().position(|x| *x == c || *x == b'\n') {
                let j = i + 1 + len;
                if j < b.len() && b[j] == c {
                    let inner = &src[i + 1..j];
                    let other = if c == b'"' { '\'' } else { '"' };
                    let prefixed = i > 0 && (b[i - 1] == b's' || b[i - 1] == b'f' || b[i - 1] == b'r' || b[i - 1] == c);
                    if !inner.contains(['\'', '"', '\\', '{', '}']) && !prefixed && !inner.is_empty() {
                        cand.push((i, j + 1, format!("{other}{inner}{other}")));
                    }
                    i = j + 1;
                    continue;
                }
            }
            i += 1;
            continue;
        }
        if c.is_ascii_digit() && (i == 0 || !(word(b[i - 1]) || b[i - 1] == b'.' || b[i - 1] == b'@' || b[i - 1] == b'-' && i > 1 && b[i - 2].is_ascii_digit())) {
            let mut j = i;
            while j < b.len() && (word(b[j])) {
                j += 1;
            }
            let tok = &src[i..j];
            let follows_ok = j >= b.len() || !(b[j] == b'.' || b[j] == b':' || b[j] == b'-' && j + 1 < b.len() && b[j + 1].is_ascii_digit());
            if follows_ok {
                let plain = tok.bytes().all(|x| x.is_ascii_digit());
                let value: Option<u64> = if plain {
                    tok.parse().ok()
                } else if let Some(h) = tok.strip_prefix("0x") {
                    u64::from_str_radix(h, 16).ok()
                } else if let Some(h) = tok.strip_prefix("0b") {
                    u64::from_str_radix(h, 2).ok()
                } else if let Some(h) = tok.strip_prefix("0o") {
                    u64::from_str_radix(h, 8).ok()
                } else if tok.bytes().all(|x| x.is_ascii_digit() || x == b'_') && !tok.ends_with('_') && !tok.contains("__") {
                    tok.replace('_', "").parse().ok()
                } else {
                    None
                };
                if let Some(v) = value.filter(|v| *v < 1_000_000_000) {
                    if !plain {
                        cand.push((i, j, v.to_string()));
                    } else if v >= 1000 {
                        let t = v.to_string();
                        cand.push((i, j, format!("{}_{}", &t[..t.len() - 3], &t[t.len() - 3..])));
                    } else {
                        cand.push((i, j, format!("0x{v:x}")));
                        cand.push((i, j, format!("0b{v:b}")));
                        if v >= 10 {
                            cand.push((i, j, format!("{}_{}", v / 10, v % 10)));
                        }
                    }
                }
            }
            i = j.max(i + 1);
            continue;
        }
        i += 1;
    }
    if cand.is_empty() {
        return None;
    }
    let (a, e, rep) = cand[r.below(cand.len())].clone();
    Some(format!("{}{}{}", &src[..a], rep, &src[e..]))
}

fn variant_once(src: &str, r: &mut Rng) -> String {
    if r.below(3) == 0 {
        // the same text moved to another offset: everything keyed by content but carrying
        // positions (spans, locations) must follow
        return match r.below(3) {
            0 => format!("# edited\n{src}"),
            1 => format!("\n\n{src}"),
            _ => format!("let unused_{} = 1\n{src}", r.below(100)),
        };
    }
    if r.below(4) == 0 {
        if let Some(out) = move_typo(src, r) {
            return out;
        }
    }
    if r.below(4) == 0 {
        // the same value written another way (1000 / 1_000, 255 / 0xff, 'x' / "x")
        if let Some(out) = respell(src, r) {
            return out;
        }
    }
    if !src.is_ascii() && r.below(2) == 0 {
        if let Some(out) = non_ascii_same_bytes(src, r) {
            return out;
        }
    }
    let b: Vec<char> = src.chars().collect();
    if b.len() < 24 {
        return src.to_string();
    }
    let lo = 9;
    let hi = b.len() - 9;
    // candidates: digits, and single-letter identifiers surrounded by non-word characters
    let mut cand = Vec::new();
    for i in lo..hi {
        let c = b[i];
        let word = |x: char| x.is_alphanumeric() || x == '_';
        if c.is_ascii_digit() && !word(b[i - 1]) && !word(b[i + 1]) {
            cand.push(i);
        } else if "abcxy".contains(c) && !word(b[i - 1]) && !word(b[i + 1]) && b[i - 1] != '\'' && b[i - 1] != '"' {
            cand.push(i);
        }
    }
    if cand.is_empty() {
        return src.to_string();
    }
    let i = cand[r.below(cand.len())];
    let mut out = b.clone();
    out[i] = if b[i].is_ascii_digit() {
        let d = b[i].to_digit(10).unwrap();
        char::from_digit((d + 1 + r.below(8) as u32) % 10, 10).unwrap()
    } else {
        let alts: Vec<char> = "abcxy".chars().filter(|x| *x != b[i]).collect();
        alts[r.below(alts.len())]
    };
    out.into_iter().collect()
}

// ------------------------------------------------------------------ projects

pub struct Project {
    pub files: Vec<(String, String)>,
    pub main_path: Vec<String>,
}

pub fn gen_project(r: &mut Rng, corpus: &Corpus) -> Project {
    let mut files: Vec<(String, String)> = Vec::new();
    let nmods = *r.pick(&[1usize, 2, 2, 3, 3, 4, 5]);
    let stems = ["artists", "orders", "lib", "util"];
    let dirs = ["", "", "sub", "staging", "marts", "sub/deep"];
    let mut refs: Vec<String> = Vec::new();
    let mut used: Vec<String> = Vec::new();
    for k in 0..nmods {
        // the same stem may appear in several directories (staging/orders, marts/orders)
        let stem = r.pick(&stems).to_string();
        let mut dir = r.pick(&dirs).to_string();
        let mut path = if dir.is_empty() {
            format!("{stem}.prql")
        } else {
            format!("{dir}/{stem}.prql")
        };
        if used.contains(&path) {
            dir = format!("d{k}");
            path = format!("{dir}/{stem}.prql");
        }
        used.push(path.clone());
        let modpath = if dir.is_empty() {
            stem.clone()
        } else {
            format!("{}.{stem}", dir.replace('/', "."))
        };
        let body = match r.below(9) {
            0 => "let input = read_parquet \"artists.parquet\"\n".to_string(),
            1 => "let x = (from z | select {y, u})\nlet w = (from z | derive {a = y, b = y})\n".to_string(),
            2 => "let x = (from z | select {y, u})\nlet inc = func by:1 v -> v + by\n".to_string(),
            3 => "let x = (from z | select {y, nope_unknown + })\n".to_string(), // syntax error in a non-root file
            4 => "let x = (from z | select {y, u} | filter missing_col > 1 | select {q})\n".to_string(),
            5 => format!("let x = (from z | selectt{k} {{y, u}})\n"), // unknown function: resolver error in this file
            6 => format!("let x = (from z{k} | filterr y > {k} | select {{y}})\n"),
            7 => format!("# module {modpath}\n\nlet x = (\n  from z\n  sort u\n  select {{y, u{k} = u}}\n)\n\nlet helper = func a:1 b:2 v -> v + a + b\n"),
            _ => {
                let mut rr = r.fork(7);
                let p = gen_program(&mut rr, corpus);
                format!("let x = (\n{}\n)\n", p.trim_end())
            }
        };
        let table = if body.contains("let input") { "input" } else { "x" };
        refs.push(format!("{modpath}.{table}"));
        files.push((path, body));
    }
    // root(s)
    let roots = *r.pick(&[1usize, 1, 1, 1, 1, 1, 0, 2]);
    let root_names = ["Project.prql", "Other.prql", "Main.prql"];
    for k in 0..roots {
        let rf = refs[r.below(refs.len())].clone();
        let rf2 = refs[r.below(refs.len())].clone();
        let body = match r.below(7) {
            0 => format!("{rf} | select y\n"),
            1 => format!(
                "let favorite = [\n  {{artist_id = 120, last_listen = @2023-05-18}},\n  {{artist_id = 7, last_listen = @2023-05-16}},\n]\n\nfavorite\njoin side:left {rf} (==artist_id)\n"
            ),
            2 => format!("from t{k} | join j = {rf} (==y) | derive {{a = y, b = y}} | sort y | select {{a, b}} | take {}\n", 3 + k),
            3 => format!("{rf} | filter unknown_name_{k} > 1\n"),
            4 => format!("from a = {rf} | join b = {rf2} (==y) | select {{a.y, b.y}} | take {}\n", 2 + k),
            5 => format!("from {rf}\nappend {rf2}\nsort y\n"),
            _ => format!("from {rf}\nderive k{k} = y + 1\n"),
        };
        files.push((root_names[k].to_string(), body));
    }
    if roots == 0 && r.below(2) == 0 {
        files.push(("".to_string(), format!("{} | take 1\n", refs[0])));
    }
    // A module that refers to two or more of its siblings (a diamond): named so that it
    // sorts before them (forward references) or after them, in the root directory or below.
    let mut hr = r.fork(0xd1a0);
    if nmods >= 2 && hr.below(4) == 0 {
        let a = hr.below(refs.len());
        let mut b = hr.below(refs.len());
        if b == a {
            b = (a + 1) % refs.len();
        }
        let name = *hr.pick(&["aaa_report", "zz_report", "report"]);
        let dir = *hr.pick(&["", "", "sub", "marts"]);
        let path = if dir.is_empty() { format!("{name}.prql") } else { format!("{dir}/{name}.prql") };
        if !files.iter().any(|(p, _)| *p == path) {
            let body = match hr.below(3) {
                0 => format!("let r = (from {} | join s = {} (==y) | select {{y}})\n", refs[a], refs[b]),
                1 => format!("let r = (from {} | append {} | take 9)\n", refs[a], refs[b]),
                _ => format!("let p = (from {} | select {{y}})\nlet q = (from {} | select {{y}})\nlet r = (from p | join q (==y))\n", refs[a], refs[b]),
            };
            files.push((path, body));
            let modpath = if dir.is_empty() { name.to_string() } else { format!("{dir}.{name}") };
            // the root may go through the hub
            if hr.below(2) == 0 {
                if let Some((_, root_body)) = files.iter_mut().find(|(p, _)| p == "Project.prql") {
                    root_body.push_str(&format!("\nlet via_hub = (from {modpath}.r | take 1)\n"));
                }
            }
        }
    }
    // Two files for one module: the library derives the module path by dropping the
    // extension, so `orders.prql` and `orders.sql` (or `orders`) both feed module `orders`.
    // A PRNG stream of its own, so that the other projects of a seed stay what they were.
    let mut xr = r.fork(0x2f11e);
    if xr.below(5) == 0 {
        let (path, _) = files[xr.below(nmods)].clone();
        let stem = path.trim_end_matches(".prql");
        let twin = match xr.below(3) {
            0 => format!("{stem}.sql"),
            1 => stem.to_string(),
            _ => format!("{stem}.txt"),
        };
        let k = xr.below(100);
        let body = match xr.below(3) {
            // distinct names: only the order of the merged statements can differ
            0 => format!("let v{k} = {k}\nlet w{k} = (from b{k})\n"),
            // a clash: which file the 'duplicate declaration' error points at
            1 => "let x = (from other_side | select {y, u})\n".to_string(),
            _ => format!("let helper{k} = func a:1 v -> v + a\nlet x = (from clash{k})\n"),
        };
        files.push((twin, body));
    }
    // File names that are not valid UTF-8 (`%XX` = raw byte, decoded by the operation): each
    // is an 'Invalid file path' error; with two of them, which one is reported?
    if xr.below(12) == 0 {
        files.push((format!("a%FF{}.prql", xr.below(10)), "let x1 = 1\n".to_string()));
        if xr.below(3) != 0 {
            files.push((format!("b%FE{}.prql", xr.below(10)), "let y1 = 2\n".to_string()));
        }
        if xr.below(3) == 0 {
            files.push((format!("sub/c%C3%28{}.prql", xr.below(10)), "let z1 = 3\n".to_string()));
        }
    }
    // `pl_to_rq_tree(pl, main_path, ..)`: the main relation need not be the root module's
    // pipeline - a let-table of a module, a module file that holds a pipeline, or a path
    // that does not exist (the error lists what was tried)
    let mut main_path: Vec<String> = Vec::new();
    match xr.below(10) {
        0 | 1 => main_path = refs[xr.below(refs.len())].split('.').map(str::to_string).collect(),
        2 => {
            files.push(("reports/weekly.prql".to_string(), format!("from {}\ntake {}\n", refs[0], 2 + xr.below(7))));
            main_path = vec!["reports".to_string(), "weekly".to_string()];
        }
        3 => main_path = vec!["nope".to_string(), format!("missing{}", xr.below(5))],
        _ => {}
    }
    Project { files, main_path }
}

// ------------------------------------------------------------------ ops

pub struct Gen<'a> {
    pub corpus: &'a Corpus,
    pub verif_seed: u64,
    /// the `prqlc` binary and the preload library exist (built by ./check and setup.sh)
    pub cli_available: bool,
}

fn pick_opts(r: &mut Rng, dialect_sensitive: bool) -> Opts {
    let target = if dialect_sensitive || r.below(2) == 0 {
        r.pick(DIALECTS).to_string()
    } else {
        "sql.any".to_string()
    };
    Opts {
        target,
        format: r.below(4) == 0,
        sig: r.below(5) == 0,
        ansi: r.below(6) == 0,
        color: r.below(3) == 0,
    }
}

/// Programs that made the pinned tree panic (resolver `todo!`s, internal operators, error
/// composition): used as calls whatever they do on the tree under test — panic, error or
/// succeed — because code around panics is where cleanup gets skipped.
pub const FRAGILE: &[&str] = &[
    "from t | select (tuple_every [a])",
    "from t | select (_eq a)",
    "from t | select {a, b} | append (from u | select {c})",
    "let f = x -> internal std.no_such_op\nfrom t | select (f a)",
    // an operator name that resolves to a module, not to a function
    "let f = x -> internal std.math\nfrom t | select (f a)",
    "let g = x y -> internal std.text\nfrom t | derive z = (g a b) | take 3",
    "let h = x -> internal std.sql\nfrom t | filter (h a)",
    "from t | select `*`",
    "from albums | select {b, x} | append (from orders | select {b, x, end})",
    // panics late, in the SQL backend, after the FROM/JOIN part has been written (S70)
    "from t | join (from s | aggregate {count this}) true",
    "from employees | join (from s | select {a + 1}) true",
    "from albums | join (from orders | group k (aggregate {sum x})) (==k)",
];

/// Dialects that differ in *how they quote* (always, with a backtick, extra keywords).
const QUOTING: &[&str] = &[
    "sql.snowflake",
    "sql.mysql",
    "sql.generic",
    "sql.bigquery",
    "sql.postgres",
    "sql.clickhouse",
    "sql.redshift",
    "sql.snowflake",
];

/// What a host compiles right after a call that blew up: an ordinary query over the same
/// tables, for a dialect that writes identifiers differently. Whatever the dead call left
/// behind about those names (S70: a per-thread memo of quote styles, cleared on the normal
/// path only) is what this call would trip over.
fn panic_follow_up(src: &str, r: &mut Rng) -> Op {
    let mut tables: Vec<String> = Vec::new();
    let mut rest = src;
    while let Some(p) = rest.find("from ") {
        rest = &rest[p + 5..];
        let name: String = rest.chars().take_while(|c| c.is_ascii_alphanumeric() || *c == '_').collect();
        if !name.is_empty() && !tables.contains(&name) {
            tables.push(name);
        }
    }
    if tables.is_empty() {
        tables.push("t".into());
    }
    let src = if tables.len() > 1 && r.below(2) == 0 {
        format!("from {} | join {} (==id) | select {{{}.a, {}.b}}", tables[0], tables[1], tables[0], tables[1])
    } else {
        format!("from {} | select {{a, b}} | sort a", tables[0])
    };
    let mut opts = Opts::plain(*r.pick(QUOTING));
    opts.sig = false;
    Op::Compile { src, opts }
}

/// After a call that may panic, half of the time: give that call a dialect of the quoting
/// set and append `panic_follow_up` (own PRNG stream; the rest of the plan is untouched).
fn push_with_follow_up(calls: &mut Vec<Call>, mut c: Call, fr: &mut Rng, panickers: &[String]) {
    let fragile = c
        .op
        .src()
        .map(|s| FRAGILE.contains(&s) || panickers.iter().any(|p| p == s))
        .unwrap_or(false);
    if fragile && fr.below(2) == 0 {
        if let Some(o) = c.op.opts_mut() {
            o.target = fr.pick(QUOTING).to_string();
        }
        let follow = panic_follow_up(c.op.src().unwrap_or(""), fr);
        calls.push(c);
        calls.push(Call::plain(follow));
    } else {
        calls.push(c);
    }
}

/// programs whose SQL differs between dialects (quoting, take, //, regex, dates)
const DIALECT_SENSITIVE: &[&str] = &[
    "from employees | filter name ~= 'x' | take 3 | select {`first name`, b}",
    "from t | derive {d = a // b, e = (a | as int)} | take 2..5",
    "from invoices | derive s = f\"{a}-{b}\" | sort {-total} | take 10 | select {s, `order`}",
    "from t | filter (d | date.to_text \"%Y\") == '2020' | derive {x = a ** 2} | take 1",
    "from tracks | group genre_id (sort {-milliseconds} | take 2) | select {`group`, name}",
    "from a | join side:full b (==id) | derive {z = a.x ?? b.x} | take 7",
    "from t | derive {q = a / b, m = a % b, p = math.pow a 2} | filter (q > 1.5) | take 4",
    "from t | select {r = (a / b | math.round 2), c = (s | text.contains 'x'), d = a // b}",
    "from events | select {`time`, `tag`, `percent`, `user`, `top`, `snapshot`} | filter `system` > 1 | sort {`timestamp`}",
    "from employees | derive {salary * 2} | take 10 | filter (name ~= \"x\")",
    "from s\"SELECT a, b FROM t\" | filter a > 1 | select {b, a}",
    "let r0 = s\"SELECT k, v0 FROM s0\"\nlet r1 = s\"SELECT k, v1 FROM s1\"\nfrom a0 = r0\njoin a1 = r1 (a0.k == a1.k)\nselect {a0.k, a0.v0, a1.v1}",
    "from s\"SELECT k, v2 FROM s2\" | join x = s\"SELECT k, w FROM s3 WHERE w > 0\" (==k) | take 5",
    "from t | derive {x = s\"COALESCE({a}, {b\", y = c} | take 3",
    "from t | select {f = f\"{a}-{}-{b}\", g = s\"LOWER({c})\"} | sort f",
    "from t | derive {a + 1, s\"NOW()\"} | take 5 | derive {d = (b | date.to_text \"%Q\")} | filter a > 1",
    "from t | select {s = s\"CONCAT({a}, {b})\", f = f\"{a}-{b}\"} | filter (s ~= \"x\") | take 3",
    "from t | derive {`identity` = a, `offset` = b} | select {`identity`, `offset`, `date`, `window`}",
    // fail late in the SQL backend of sqlite / mssql / duckdb (no EXCEPT ALL / INTERSECT ALL),
    // after a let-table has become a CTE
    "let good = (from a | take 5)\nlet bad = (from film | remove film2)\nfrom good\nappend bad",
    "let g = (from t | sort x | take 3)\nlet h = (from u | take 2 | intersect t)\nfrom g | join h (==id) | select {g.x, h.y}",
];

impl<'a> Gen<'a> {
    pub fn program(&self, r: &mut Rng) -> String {
        let p = self.program_ascii(r);
        if r.below(10) == 0 {
            non_ascii_variant(&p, r)
        } else {
            p
        }
    }

    fn program_ascii(&self, r: &mut Rng) -> String {
        match r.below(14) {
            0..=3 => r.pick(&self.corpus.programs).clone(),
            4..=6 => gen_program(r, self.corpus),
            7..=9 => tpl_program(r),
            10..=11 => err_program(r),
            _ => splice_program(r, self.corpus),
        }
    }

    pub fn single_op(&self, r: &mut Rng, dialect_sensitive: bool) -> Op {
        let src = if dialect_sensitive && r.below(2) == 0 {
            r.pick(DIALECT_SENSITIVE).to_string()
        } else {
            self.program(r)
        };
        if r.below(20) == 0 {
            return self.project_op(r, None);
        }
        self.op_for_src(r, src, dialect_sensitive)
    }

    pub fn op_for_src(&self, r: &mut Rng, src: String, dialect_sensitive: bool) -> Op {
        if src.len() < 20_000 && is_wide(&src) && r.below(2) == 0 {
            // layout is what such a program is about
            return Op::Fmt { src };
        }
        match r.below(19) {
            0..=8 => Op::Compile {
                src,
                opts: pick_opts(r, dialect_sensitive),
            },
            9..=11 => Op::Staged {
                src,
                opts: pick_opts(r, dialect_sensitive),
            },
            12 if r.below(3) == 0 => Op::StagedJson {
                // half of the time another request's documents are written in between (S78)
                between: {
                    let mut jr = Rng::new(mix(fnv(src.as_bytes()), 0x5781));
                    match jr.below(4) {
                        0 => Some("from x | derive y = 2.5".to_string()),
                        1 => Some(format!("from {} | filter a > 1.5e3 | take 1", jr.pick(TABLES))),
                        _ => None,
                    }
                },
                src,
                opts: pick_opts(r, dialect_sensitive),
            },
            12 if r.below(2) == 0 => Op::StagedRqEdit {
                src,
                edit: r.below(64) as u32,
                opts: pick_opts(r, dialect_sensitive),
            },
            12 => {
                let between = match r.below(3) {
                    0 => "from x".to_string(),
                    1 => format!("from {} | take 1", r.pick(TABLES)),
                    _ => self.program(r),
                };
                Op::StagedSplit {
                    src,
                    between,
                    via_json: r.below(2) == 0,
                    opts: pick_opts(r, dialect_sensitive),
                }
            }
            13 if r.below(2) == 0 => {
                // an editor's buffer edited in place: the previous text is a near-duplicate
                let a = if r.below(2) == 0 {
                    // text where byte offsets and character offsets part ways, with a slip in it
                    let t = r.pick(TABLES);
                    let n = r.range(2, 9);
                    match r.below(3) {
                        0 => format!("from {t} | filter a == 'naïve café {n}' | derive z = b ^ 2 | select {{z, `größe`}} | take {n}   # ↓ łódź\n"),
                        1 => format!("# été 日本語 🦀\nfrom {t} | derive {{x = 'straße'}} | filter x @ {n} | sort {{x, -a}} | take {n}   \n"),
                        _ => format!("from {t} | select {{`ünï`, a, b}} | filter a $ {n} | derive {{c = 'Ænima'}} | sort c | take {n}  \n"),
                    }
                } else {
                    src
                };
                let b = if r.below(2) == 0 {
                    // a slip fixed and made again further down, and a letter changed before it
                    let m = move_typo(&a, r).unwrap_or_else(|| a.clone());
                    non_ascii_same_bytes(&m, r).unwrap_or(m)
                } else {
                    variant_of(&a, r)
                };
                if r.below(2) == 0 {
                    Op::EditInPlace { before: a, src: b }
                } else {
                    Op::EditInPlace { before: b, src: a }
                }
            }
            13..=15 => Op::Fmt { src },
            16 if r.below(2) == 0 => Op::CApi {
                staged: r.below(3) == 0,
                src,
                opts: pick_opts(r, dialect_sensitive),
            },
            16..=17 => Op::Rq { src },
            _ => Op::Tokens { src },
        }
    }

    /// The next call of a history: with some probability a near-duplicate of the
    /// previous program (an editor re-compiling a buffer), through the same or
    /// another entry point; otherwise a fresh operation.
    pub fn next_op(&self, r: &mut Rng, prev: Option<&Op>, dialect_sensitive: bool) -> Op {
        if let Some(p) = prev {
            if let Some(psrc) = p.src() {
                if psrc.len() < 20_000 && is_wide(psrc) && r.below(2) == 0 {
                    // one wide statement is followed by another of another width
                    return Op::Fmt { src: wide_program(r) };
                }
                if r.below(6) == 0 {
                    // the very same source under another target / other options
                    let mut o = p.clone();
                    match o.opts_mut() {
                        Some(opts) => {
                            let old = opts.target.clone();
                            opts.target = match old.as_str() {
                                "sql.ansi" => "sql.generic".into(),
                                "sql.generic" | "sql.any" => "sql.ansi".into(),
                                "sql.redshift" => "sql.postgres".into(),
                                _ if r.below(3) == 0 => "sql.redshift".into(),
                                _ => r.pick(DIALECTS).to_string(),
                            };
                            if r.below(3) == 0 {
                                opts.format = !opts.format;
                            }
                            return o;
                        }
                        None => {
                            return Op::Compile {
                                src: psrc.to_string(),
                                opts: pick_opts(r, true),
                            }
                        }
                    }
                }
                if r.below(4) == 0 {
                    let v = variant_of(psrc, r);
                    if r.below(2) == 0 {
                        let mut o = p.clone();
                        if let Some(s) = o.src_mut() {
                            *s = v;
                        }
                        return o;
                    }
                    return self.op_for_src(r, v, dialect_sensitive);
                }
            }
        }
        self.single_op(r, dialect_sensitive)
    }

    pub fn project_op(&self, r: &mut Rng, dialect: Option<&str>) -> Op {
        let p = gen_project(r, self.corpus);
        let n = p.files.len();
        let mut opts = pick_opts(r, false);
        if let Some(d) = dialect {
            opts.target = d.to_string();
        }
        Op::Project {
            files: p.files,
            order: (0..n).collect(),
            via_hashmap: false,
            dups: Vec::new(),
            via_insert: false,
            sibling_first: false,
            abs_prefix: match r.below(8) {
                0 => Some("/tmp".to_string()),
                1 => Some("/usr".to_string()),
                _ => None,
            },
            main_path: p.main_path,
            opts,
        }
    }

    /// The real command-line binary on a generated project directory (or a one-file
    /// directory for the commands that take a single source).
    pub fn cli_op(&self, r: &mut Rng) -> Op {
        let single = r.below(4) == 0;
        let (files, main_path) = if single {
            let mut src = self.program(r);
            if src.len() > 20_000 {
                src = "from t | derive {a = x, b = x} | sort a | select {a, b} | take 5".to_string();
            }
            (vec![("q.prql".to_string(), src)], None)
        } else {
            let mut p = gen_project(r, self.corpus);
            let mp = if p.main_path.is_empty() { None } else { Some(p.main_path.join(".")) };
            // fault `unreadable_file` (own PRNG stream): one or two files whose bytes are not
            // UTF-8, so that the tool's read of them fails (audit 7, K4 / F17)
            let mut ur = Rng::new(mix(r.next_u64(), 0x10e44));
            if ur.below(6) == 0 {
                let n = p.files.len();
                for _ in 0..ur.range(1, 2) {
                    let k = ur.below(n);
                    if p.files[k].0.ends_with(".prql") {
                        p.files[k].1 = "%%RAW%%let x = %FF%FE 1\n".to_string();
                    }
                }
                if ur.below(2) == 0 {
                    // and more files, so that two unreadable ones are likelier to be apart
                    p.files.push(("zz_bad.prql".to_string(), "%%RAW%%from t | select %C3%28\n".to_string()));
                }
            }
            // a byte order mark at the start of a file, or CRLF line ends throughout (files that
            // came from another editor or platform): own PRNG stream (S79)
            let mut br = Rng::new(mix(r.next_u64(), 0xB0B0));
            match br.below(10) {
                0 | 1 => {
                    let k = br.below(p.files.len());
                    if !p.files[k].1.starts_with("%%RAW%%") {
                        p.files[k].1 = format!("\u{feff}{}", p.files[k].1);
                    }
                }
                2 => {
                    let k = br.below(p.files.len());
                    if !p.files[k].1.starts_with("%%RAW%%") {
                        p.files[k].1 = p.files[k].1.replace('\n', "\r\n");
                    }
                }
                _ => {}
            }
            (p.files, mp)
        };
        let mut args: Vec<String> = Vec::new();
        let mut rewrite = false;
        let mut debug_log = false;
        let mut main_path = main_path;
        // the commands that take one source are also run on project directories (own PRNG
        // stream): today they refuse (a message that lists the files), tomorrow they may
        // pick a file (S73)
        let mut xr = Rng::new(mix(r.next_u64(), 0x51c1));
        let pick = if single {
            r.below(14)
        } else if xr.below(5) == 0 {
            10 + xr.below(3)
        } else {
            r.below(10)
        };
        match pick {
            0..=5 => {
                args.push("compile".into());
                let o = pick_opts(r, false);
                args.push("--target".into());
                args.push(o.target);
                if !o.sig {
                    args.push("--hide-signature-comment".into());
                }
                if !o.format {
                    args.push("--no-format".into());
                }
                debug_log = r.below(8) == 0;
            }
            6 | 7 => {
                args.push("collect".into());
                main_path = None;
            }
            8 => {
                args.push("fmt".into());
                rewrite = true;
                main_path = None;
            }
            9 => {
                args.extend(["experimental".to_string(), "doc".to_string()]);
                if r.below(2) == 0 {
                    args.extend(["--format".to_string(), "html".to_string()]);
                }
                main_path = None;
            }
            10 => {
                args.extend(["debug".to_string(), "annotate".to_string()]);
                main_path = None;
            }
            11 => {
                args.extend(["lex".to_string(), "--format".to_string(), "json".to_string()]);
                main_path = None;
            }
            12 => {
                args.extend(["experimental".to_string(), "highlight".to_string()]);
                main_path = None;
            }
            _ => {
                args.extend(["debug".to_string(), "lineage".to_string(), "--format".to_string(), "json".to_string()]);
                main_path = None;
            }
        }
        Op::Cli {
            files,
            args,
            main_path,
            rewrite,
            debug_log,
            // a single source is as often named itself, or piped in, as found in a directory
            input: if single { r.below(3) as u8 } else { 0 },
            hash_base: 0,
            readdir_seed: 0,
        }
    }

    /// Stratum A: one operation under K+1 hash bases (and, for projects, K+1
    /// enumeration orders). Call 0 is the reference context itself.
    /// Stratum A plan; one in eight runs in a freshly exec'd process (fault `address_space`).
    pub fn plan_a(&self, i: u64, k: usize) -> Plan {
        let mut p = self.plan_a0(i, k);
        p.fresh_exec = Rng::new(mix3(self.verif_seed, 0xA5_1A, i)).below(8) == 0;
        p
    }

    fn plan_a0(&self, i: u64, k: usize) -> Plan {
        let s = mix3(self.verif_seed, 0xA, i);
        let mut r = Rng::new(s);
        let op = if r.below(6) == 0 {
            self.project_op(&mut r, None)
        } else {
            self.single_op(&mut r, false)
        };
        // one plan in fourteen runs the real command-line binary instead (own PRNG stream, so
        // that the other plans are what they were before the operation existed)
        let op = {
            let mut cr = Rng::new(mix3(self.verif_seed, 0xC11, i));
            if self.cli_available && cr.below(14) == 0 {
                self.cli_op(&mut cr)
            } else {
                op
            }
        };
        let mut calls = vec![Call {
            op: op.clone(),
            hash_base: Some(0),
            panic_at: None,
            session: false,
            warm: false,
            log_level: None,
        }];
        for _ in 0..k {
            let mut o = op.clone();
            if let Op::Project {
                order,
                via_hashmap,
                dups,
                via_insert,
                ..
            } = &mut o
            {
                r.shuffle(order);
                *via_hashmap = r.below(3) == 0;
                if r.below(4) == 0 {
                    // a file handed over twice / the tree built by insertion
                    let n = order.len();
                    *dups = (0..r.range(1, 2)).map(|_| r.below(n)).collect();
                    *via_hashmap = false;
                }
                *via_insert = !*via_hashmap && r.below(4) == 0;
            }
            if let Op::Project {
                via_hashmap,
                dups,
                via_insert,
                sibling_first,
                ..
            } = &mut o
            {
                if r.below(5) == 0 {
                    *sibling_first = true;
                    *via_hashmap = false;
                    *via_insert = false;
                    dups.clear();
                }
            }
            let hb = 1 + (r.next_u64() >> 16);
            if let Op::Cli {
                hash_base,
                readdir_seed,
                ..
            } = &mut o
            {
                let mut cr = Rng::new(mix3(s, 0xC12, calls.len() as u64));
                *hash_base = hb;
                *readdir_seed = if cr.below(4) == 0 { 0 } else { 1 + (cr.next_u64() >> 16) };
            }
            calls.push(Call {
                op: o,
                hash_base: Some(hb),
                panic_at: None,
                session: false,
                warm: false,
                // what the host has set the `log` crate's maximum level to (own PRNG stream)
                log_level: {
                    let mut lr = Rng::new(mix3(s, 0x106, calls.len() as u64));
                    *lr.pick(&[None, None, None, Some(4u8), Some(3), Some(0), Some(0)])
                },
            });
        }
        Plan {
            stratum: "A".into(),
            exec_seed: s,
            shuttle: false,
            engine: String::new(),
            hash_base: 0,
            env_before: None,
            threads: vec![calls],
            sched: Sched::default(),
            log_yield_ppm: 0,
            sentinel: vec![],
            keep_log: false,
            heap_perturb: 0,
            alloc_yield_mean: 0,
            clock_step_ns: 0,
            block_yield_mean: 0,
            atomic_yield_mean: 0,
            atomic_hold_mean: 0,
            atomic_focus: 0,
            spin_guard: 0,
            log_level: None,
            fresh_exec: false,
        }
    }

    fn sentinel(&self, r: &mut Rng) -> Vec<Call> {
        let progs = [
            "from employees | filter age > 30 | derive {a = salary, b = salary} | sort a | take 5 | select {a, b, `first name`}",
            "from t | select {a, b} | filter nonexistent > 1",
            "let f = func a:4 b:5 c:6 z -> z + a + b + c\nfrom t | derive y = (f c:1 a:2 x)",
        ];
        let d = r.pick(DIALECTS).to_string();
        vec![
            Call::plain(Op::Compile {
                src: progs[0].into(),
                opts: Opts {
                    target: d,
                    format: false,
                    sig: true,
                    ansi: false,
                    color: false,
                },
            }),
            Call::plain(Op::Compile {
                src: progs[1].into(),
                opts: Opts::plain("sql.any"),
            }),
            Call::plain(Op::Fmt { src: progs[2].into() }),
            Call::plain(Op::Staged {
                src: progs[0].into(),
                opts: Opts::plain("sql.mssql"),
            }),
        ]
    }

    /// Stratum B: call histories. Callers run one after another (each on a
    /// fresh OS thread); faults: failing and panicking predecessors, injected
    /// panics, debug sessions, env changes between calls. Sentinel afterwards.
    /// A special history shape: one source compiled for many targets (and option
    /// combinations) one after another in one process — whatever is remembered per process
    /// but keyed too coarsely (by handler type, by identifier text, by source only) shows.
    fn plan_b_matrix(&self, s: u64, r: &mut Rng) -> Plan {
        let src = match r.below(4) {
            0 => r.pick(DIALECT_SENSITIVE).to_string(),
            1 => tpl_program(r),
            _ => gen_program(r, self.corpus),
        };
        let mut targets: Vec<&str> = DIALECTS.to_vec();
        r.shuffle(&mut targets);
        let k = r.range(4, targets.len());
        let staged = r.below(4) == 0;
        let calls: Vec<Call> = targets[..k]
            .iter()
            .map(|t| {
                let opts = Opts {
                    target: t.to_string(),
                    format: r.below(5) == 0,
                    sig: r.below(6) == 0,
                    ansi: false,
                    color: false,
                };
                Call::plain(if staged {
                    Op::Staged { src: src.clone(), opts }
                } else {
                    Op::Compile { src: src.clone(), opts }
                })
            })
            .collect();
        Plan {
            stratum: "B".into(),
            exec_seed: s,
            shuttle: false,
            engine: String::new(),
            hash_base: if r.below(2) == 0 { 0 } else { 1 + (r.next_u64() >> 16) },
            env_before: None,
            threads: vec![calls],
            sched: Sched::default(),
            log_yield_ppm: 0,
            sentinel: self.sentinel(r),
            keep_log: false,
            heap_perturb: 0,
            alloc_yield_mean: 0,
            clock_step_ns: 0,
            block_yield_mean: 0,
            atomic_yield_mean: 0,
            atomic_hold_mean: 0,
            atomic_focus: 0,
            spin_guard: 0,
            log_level: None,
            fresh_exec: false,
        }
    }

    /// Another special history shape: a query built up step by step, the way somebody
    /// writes it — first each of its parts on its own (in some order), then the whole.
    /// Process-wide state that remembers *names* or *shapes* in the order it first saw them
    /// shows when the whole is finally compiled.
    fn plan_b_incremental(&self, s: u64, r: &mut Rng) -> Plan {
        let t = r.pick(TABLES).to_string();
        let mut cs: Vec<&str> = COLS.to_vec();
        r.shuffle(&mut cs);
        let base = cs[0];
        let mut names: Vec<&str> = NEW.to_vec();
        r.shuffle(&mut names);
        let k = r.range(2, 4);
        let parts: Vec<String> = (0..k).map(|i| format!("{} = {base} + {}", names[i], i + 1)).collect();
        let tail = match r.below(3) {
            0 => ", this.*",
            1 => "",
            _ => ", this.*",
        };
        let suffix = match r.below(3) {
            0 => "",
            1 => " | select this",
            _ => " | sort this.* | take 3",
        };
        let mk = |ps: &[String]| format!("from {t} | select {{{base}}} | derive {{{}{tail}}}{suffix}\n", ps.join(", "));
        let mut order: Vec<usize> = (0..k).collect();
        r.shuffle(&mut order);
        let entry = r.below(3);
        let mkop = |src: String| match entry {
            0 => Op::Rq { src },
            1 => Op::Compile {
                src,
                opts: Opts::plain("sql.any"),
            },
            _ => Op::Staged {
                src,
                opts: Opts::plain("sql.any"),
            },
        };
        let mut calls: Vec<Call> = order.iter().map(|&i| Call::plain(mkop(mk(&parts[i..i + 1])))).collect();
        calls.push(Call::plain(mkop(mk(&parts))));
        Plan {
            stratum: "B".into(),
            exec_seed: s,
            shuttle: false,
            engine: String::new(),
            hash_base: 0,
            env_before: None,
            threads: vec![calls],
            sched: Sched::default(),
            log_yield_ppm: 0,
            sentinel: vec![],
            keep_log: false,
            heap_perturb: 0,
            alloc_yield_mean: 0,
            clock_step_ns: 0,
            block_yield_mean: 0,
            atomic_yield_mean: 0,
            atomic_hold_mean: 0,
            atomic_focus: 0,
            spin_guard: 0,
            log_level: None,
            fresh_exec: false,
        }
    }

    /// An *error burst*: a dozen or more failing near-twins in a row on one thread, each of
    /// whose messages prints an expression list or a type (`take` expected int or range, but
    /// found {this.x.aa, this.x.rr}). The temporaries rendered for such messages are built and
    /// dropped call after call at recurring heap addresses; whatever remembers a rendering by
    /// *where* the thing lived (S76) or by its shape rather than its content answers the next
    /// twin with the previous one's text. Every call is judged.
    fn plan_b_error_burst(&self, s: u64) -> Plan {
        let mut r = Rng::new(mix(s, 0xE44B_0001));
        let t = r.pick(TABLES).to_string();
        let shape = r.below(8);
        let n = r.range(12, 40);
        let letters = b"abcdefghijklmnopqrstuvwxyz";
        let name = |r: &mut Rng| -> String {
            let a = letters[r.below(26)] as char;
            let b = letters[r.below(26)] as char;
            format!("{a}{b}")
        };
        let entry = r.below(4);
        let mut calls: Vec<Call> = Vec::with_capacity(n);
        for _ in 0..n {
            let (a, b, c) = (name(&mut r), name(&mut r), name(&mut r));
            let src = match shape {
                0 => format!("from {t} | take {{{a}, {b}}}"),
                1 => format!("from {t} | filter {{{a}, {b}}}"),
                2 => format!("from {t} | window rows:{{{a}, {b}}} (derive {c} = 1)"),
                3 => format!("from {t} | take [{a}, {b}, {c}]"),
                4 => format!("from {t} | select {{{a}, {b}}} | take {{{a}, {b}, {c}}}"),
                5 => format!("let v <{{{a} = int, {b} = text}}> = 5\nfrom {t} | select {{v}}"),
                6 => format!("from {t} | sort {{{a}, -{b}}} | take ({a} | {b} | {c})"),
                _ => format!("from {t} | derive {c} = case [{a} => 1, {b} => 2] | take {{{c}, {a}}}"),
            };
            let op = match entry {
                0 => Op::Rq { src },
                1 => Op::Staged { src, opts: Opts::plain("sql.any") },
                _ => Op::Compile { src, opts: Opts::plain("sql.any") },
            };
            calls.push(Call::plain(op));
        }
        Plan {
            stratum: "B".into(),
            exec_seed: s,
            shuttle: false,
            engine: String::new(),
            hash_base: 0,
            env_before: None,
            threads: vec![calls],
            sched: Sched::default(),
            log_yield_ppm: 0,
            sentinel: vec![],
            keep_log: false,
            heap_perturb: 0,
            alloc_yield_mean: 0,
            clock_step_ns: 0,
            block_yield_mean: 0,
            atomic_yield_mean: 0,
            atomic_hold_mean: 0,
            atomic_focus: 0,
            spin_guard: 0,
            log_level: None,
            fresh_exec: false,
        }
    }

    /// A *long* history: hundreds of small, mostly distinct calls in one process (fillers:
    /// executed, not compared), then a few ordinary calls and the sentinel, which are. State
    /// that accumulates slowly - a cache that fills up and starts evicting, an interner, a
    /// counter that wraps, a pool that grows - only shows after many calls.
    fn plan_b_marathon(&self, s: u64) -> Plan {
        let mut r = Rng::new(mix(s, 0x3a7a_7401));
        let n = *r.pick(&[120usize, 270, 270, 520]);
        let mut calls: Vec<Call> = Vec::with_capacity(2 * n + 16);
        let salt = r.below(1000);
        // the calls that are judged: made once at the very beginning (a fresh process) and
        // once more, unchanged, after the long history
        let mut probes: Vec<Call> = Vec::new();
        let mut prev: Option<Op> = None;
        for _ in 0..r.range(3, 6) {
            let c = Call::plain(self.next_op(&mut r, prev.as_ref(), true));
            prev = Some(c.op.clone());
            probes.push(c);
        }
        calls.extend(probes.iter().cloned());
        for i in 0..n {
            let t = r.pick(TABLES);
            let c = r.pick(COLS);
            let d = r.pick(COLS);
            let k = i + salt;
            let src = match r.below(17) {
                0 => format!("from tab{k} | select {{col{k}, {c}}} | filter col{k} > {i} | take {}\n", i % 50 + 1),
                1 => format!("from {t} | derive {{v{k} = {c} + {i}, w{k} = {d} * 2}} | sort {{-v{k}}} | take {}\n", i % 9 + 1),
                2 => format!("let l{k} = (from {t} | take {})\nfrom l{k} | join o{k} = {t} (=={c}) | select {{l{k}.{c}, o{k}.{d}}}\n", i % 7 + 2),
                3 => format!("from {t} | group {{{c}}} (aggregate {{s{k} = sum {d}, n{k} = count this}}) | filter s{k} > {i}\n"),
                4 => format!("from s\"SELECT a{k}, b{k} FROM src{k}\" | filter a{k} > {i} | select {{b{k}}}\n"),
                5 => format!("from {t} | select {{x{k} = ({c} | math.round {}), y{k} = f\"{{{c}}}-{{{d}}}-{k}\"}}\n", i % 4),
                6 => format!("from {t} | filter nope{k} ({c}) > {i}\n"),
                7 => format!("from {t} | select {{{c}, {d}}} | filter missing_{k} > 1\n"),
                8 => format!("from {t} | derive {{z{k} = 'unterminated {i}}}\n"),
                9 => format!("let f{k} = a b -> a + b * {i}\nfrom {t} | derive {{r{k} = (f{k} {c} {d})}} | take {}..{}\n", i % 5 + 1, i % 5 + 4),
                10 => format!("from {t} | window rows:-{}..0 (sort {c} | derive {{m{k} = average {d}}}) | select {{m{k}}}\n", i % 6 + 1),
                // a wide schema: dozens of names nobody has seen before, in one call
                11..=15 => {
                    let w = r.range(30, 120);
                    let cols: Vec<String> = (0..w).map(|j| format!("f{k}_{j}")).collect();
                    format!("from wide{k} | select {{{}}} | sort {{f{k}_0}} | take {}\n", cols.join(", "), i % 30 + 1)
                }
                _ => format!("from {t} | select {{`col {k}` = {c}, `{k}th` = {d}}} | sort `col {k}` | take {}\n", i % 20 + 1),
            };
            let op = match r.below(10) {
                0 => Op::Fmt { src },
                1 => Op::Rq { src },
                2 => Op::Tokens { src },
                3 => Op::Staged { src, opts: pick_opts(&mut r, true) },
                _ => Op::Compile { src, opts: pick_opts(&mut r, true) },
            };
            let mut c = Call::plain(op);
            c.warm = true;
            calls.push(c);
        }
        calls.extend(probes.iter().cloned());
        let sentinel = self.sentinel(&mut r);
        Plan {
            stratum: "B".into(),
            exec_seed: s,
            shuttle: false,
            engine: String::new(),
            hash_base: if r.below(2) == 0 { 0 } else { 1 + (r.next_u64() >> 16) },
            env_before: None,
            threads: vec![calls],
            sched: Sched::default(),
            log_yield_ppm: 0,
            sentinel,
            keep_log: false,
            heap_perturb: 0,
            alloc_yield_mean: 0,
            clock_step_ns: 0,
            block_yield_mean: 0,
            atomic_yield_mean: 0,
            atomic_hold_mean: 0,
            atomic_focus: 0,
            spin_guard: 0,
            log_level: None,
            fresh_exec: false,
        }
    }

    pub fn plan_b(&self, i: u64, panickers: &[String]) -> Plan {
        let mut p = self.plan_b0(i, panickers);
        no_panic_fault_across_ffi(&mut p);
        p.fresh_exec = Rng::new(mix3(self.verif_seed, 0xA5_1B, i)).below(12) == 0;
        p
    }

    fn plan_b0(&self, i: u64, panickers: &[String]) -> Plan {
        let s = mix3(self.verif_seed, 0xB, i);
        // one execution in forty is a long history (a PRNG stream of its own)
        if Rng::new(mix(s, 0x3a7a)).below(40) == 0 {
            return self.plan_b_marathon(s);
        }
        // and one in thirty an error burst (again a stream of its own)
        if Rng::new(mix(s, 0xE44B)).below(30) == 0 {
            return self.plan_b_error_burst(s);
        }
        let mut r = Rng::new(s);
        match r.below(20) {
            0 | 1 => return self.plan_b_matrix(s, &mut r),
            2 => return self.plan_b_incremental(s, &mut r),
            _ => {}
        }
        let nthreads = *r.pick(&[1usize, 1, 2, 3]);
        let fault_panic_inj = r.below(2) == 0;
        let fault_panic_real = r.below(2) == 0 && !panickers.is_empty();
        let fault_env = r.below(3) == 0;
        let fault_session = r.below(3) == 0;
        let mut threads: Vec<Vec<Call>> = Vec::new();
        let mut session_thread_used = false;
        let mut fr = Rng::new(mix(s, 0xF0110));
        for t in 0..nthreads {
            let ncalls = r.range(1, 5);
            let mut calls = Vec::new();
            let session_here = fault_session && !session_thread_used && r.below(2) == 0;
            if session_here {
                session_thread_used = true;
            }
            let mut prev: Option<Op> = None;
            for _ in 0..ncalls {
                let ds = r.below(3) == 0;
                let mut c = Call::plain(self.next_op(&mut r, prev.as_ref(), ds));
                prev = Some(c.op.clone());
                if fault_panic_real && r.below(5) == 0 {
                    c.op = Op::Compile {
                        src: r.pick(panickers).clone(),
                        opts: pick_opts(&mut r, false),
                    };
                } else if r.below(25) == 0 {
                    let f = r.pick(FRAGILE).to_string();
                    c.op = self.op_for_src(&mut r, f, false);
                }
                if fault_panic_inj && r.below(5) == 0 {
                    c.panic_at = Some(match r.below(3) {
                        0 => r.range(1, 12) as u32,
                        1 => r.range(1, 120) as u32,
                        _ => r.range(1, 900) as u32,
                    });
                }
                if session_here && r.below(2) == 0 {
                    c.session = true;
                }
                push_with_follow_up(&mut calls, c, &mut fr, panickers);
                if fault_env && nthreads == 1 && r.below(4) == 0 {
                    let v = match r.below(3) {
                        0 => None,
                        1 => Some("0.9.2".to_string()),
                        _ => Some("1.2.3".to_string()),
                    };
                    calls.push(Call::plain(Op::SetEnv { value: v }));
                }
                if fault_env && nthreads == 1 && r.below(3) == 0 {
                    // a project addressed by absolute paths, around a change of directory
                    let mut po = self.project_op(&mut r, None);
                    if let Op::Project { abs_prefix, .. } = &mut po {
                        *abs_prefix = Some(r.pick(&["/tmp", "/usr"]).to_string());
                    }
                    calls.push(Call::plain(po.clone()));
                    let d = *r.pick(&["/tmp", "/usr", "/"]);
                    calls.push(Call::plain(Op::SetCwd { dir: d.to_string() }));
                    calls.push(Call::plain(po));
                }
                if fault_env && nthreads == 1 && r.below(4) == 0 {
                    let d = *r.pick(&["/tmp", "/usr", "/", "/tmp/project"]);
                    calls.push(Call::plain(Op::SetCwd { dir: d.to_string() }));
                }
            }
            let _ = t;
            threads.push(calls);
        }
        let env_before = if fault_env && r.below(2) == 0 {
            Some("0.11.7".to_string())
        } else {
            None
        };
        let mut sentinel = Vec::new();
        if fault_env && r.below(2) == 0 {
            sentinel.push(Call::plain(Op::SetEnv {
                value: if r.below(2) == 0 { None } else { Some("2.0.0".into()) },
            }));
        }
        sentinel.extend(self.sentinel(&mut r));
        let heap_perturb = *r.pick(&[0u32, 0, 0, 7, 40, 300]);
        // the host's log verbosity: for the whole process, and now and then changed between
        // two calls (a PRNG stream of its own)
        let mut lr = Rng::new(mix(s, 0x106));
        let plan_level = *lr.pick(&[None, None, None, None, Some(4u8), Some(3), Some(0)]);
        if lr.below(4) == 0 {
            for calls in threads.iter_mut() {
                for c in calls.iter_mut() {
                    if lr.below(4) == 0 {
                        c.log_level = Some(*lr.pick(&[0u8, 0, 3, 4, 5, 5]));
                    }
                }
            }
        }
        Plan {
            stratum: "B".into(),
            exec_seed: s,
            shuttle: false,
            engine: String::new(),
            hash_base: if r.below(2) == 0 { 0 } else { 1 + (r.next_u64() >> 16) },
            env_before,
            threads,
            sched: Sched::default(),
            log_yield_ppm: 0,
            sentinel,
            keep_log: false,
            heap_perturb,
            alloc_yield_mean: 0,
            clock_step_ns: *r.pick(&[0u64, 0, 0, 1_000_000, 1_000_000_000, 50_000_000_000]),
            block_yield_mean: 0,
            atomic_yield_mean: 0,
            atomic_hold_mean: 0,
            atomic_focus: 0,
            spin_guard: 0,
            log_level: plan_level,
            fresh_exec: false,
        }
    }

    /// Stratum C: concurrent callers as shuttle tasks under the simulator's
    /// scheduler; dialect-sensitive programs, different options per caller.
    pub fn plan_c(&self, i: u64, panickers: &[String]) -> Plan {
        let mut p = self.plan_c0(i, panickers);
        no_panic_fault_across_ffi(&mut p);
        p.fresh_exec = Rng::new(mix3(self.verif_seed, 0xA5_1C, i)).below(12) == 0;
        p
    }

    fn plan_c0(&self, i: u64, panickers: &[String]) -> Plan {
        let s = mix3(self.verif_seed, 0xC, i);
        let mut r = Rng::new(s);
        let nthreads = *r.pick(&[2usize, 2, 3, 3, 4]);
        let fault_panic_inj = r.below(2) == 0;
        let fault_panic_real = r.below(3) == 0 && !panickers.is_empty();
        let fault_session = r.below(3) == 0;
        let session_thread = r.below(nthreads);
        // *Twin workloads* (a third of the executions): every caller compiles the same
        // program or a near-duplicate of it (a build tool or a server compiling one model on
        // several threads), so that the callers run through the same code - the same memo,
        // the same lock - at the same time. Drawn from a PRNG stream of its own so that the
        // other executions of a seed stay what they were.
        let mut tr = Rng::new(mix(s, 0x7717));
        let theme: Option<String> = if tr.below(3) == 0 {
            Some(match tr.below(8) {
                0..=2 => tr.pick(DIALECT_SENSITIVE).to_string(),
                3 => tpl_program(&mut tr),
                4 => tr.pick(FRAGILE).to_string(),
                5 => err_program(&mut tr),
                _ => self.program(&mut tr),
            })
        } else {
            None
        };
        let mut threads = Vec::new();
        let mut fr = Rng::new(mix(s, 0xF0111));
        for t in 0..nthreads {
            let ncalls = r.range(1, 4);
            let mut calls = Vec::new();
            let mut prev: Option<Op> = None;
            for _ in 0..ncalls {
                let op = match &theme {
                    Some(th) => {
                        let src = if tr.below(5) < 3 { th.clone() } else { variant_of(th, &mut tr) };
                        if tr.below(10) < 7 {
                            Op::Compile { src, opts: pick_opts(&mut tr, true) }
                        } else {
                            self.op_for_src(&mut tr, src, true)
                        }
                    }
                    None => self.next_op(&mut r, prev.as_ref(), true),
                };
                let mut c = Call::plain(op);
                prev = Some(c.op.clone());
                if fault_panic_real && r.below(6) == 0 {
                    c.op = Op::Compile {
                        src: r.pick(panickers).clone(),
                        opts: pick_opts(&mut r, true),
                    };
                } else if r.below(12) == 0 {
                    let f = r.pick(FRAGILE).to_string();
                    c.op = self.op_for_src(&mut r, f, true);
                }
                if fault_panic_inj && r.below(6) == 0 {
                    c.panic_at = Some(match r.below(3) {
                        0 => r.range(1, 12) as u32,
                        1 => r.range(1, 120) as u32,
                        _ => r.range(1, 900) as u32,
                    });
                }
                if fault_session && t == session_thread && r.below(2) == 0 {
                    c.session = true;
                }
                push_with_follow_up(&mut calls, c, &mut fr, panickers);
            }
            threads.push(calls);
        }
        let env_before = if r.below(6) == 0 { Some("0.12.1".to_string()) } else { None };
        let mut sentinel = Vec::new();
        if env_before.is_some() && r.below(2) == 0 {
            sentinel.push(Call::plain(Op::SetEnv { value: None }));
        }
        sentinel.extend(self.sentinel(&mut r));
        // two interleaving engines. Default is real OS threads under the baton scheduler.
        // The shuttle one (coroutines on one OS thread) shares thread-locals between simulated
        // threads, so it is opt-in (VERIF_ENGINES=mixed|shuttle) and refused by the driver
        // when the library has any thread_local!
        let engines = std::env::var("VERIF_ENGINES").unwrap_or_default();
        let shuttle_draw = r.below(4) == 0;
        let engine = match engines.as_str() {
            "shuttle" => "shuttle",
            // cross-checking mode: a quarter of the executions on the coroutine engine
            "mixed" if shuttle_draw => "shuttle",
            // default: real OS threads only — the faithful engine (DESIGN.md §9.2)
            _ => "threads",
        };
        let mut plan = Plan {
            stratum: "C".into(),
            exec_seed: s,
            shuttle: true,
            engine: engine.to_string(),
            hash_base: if r.below(2) == 0 { 0 } else { 1 + (r.next_u64() >> 16) },
            env_before,
            threads,
            sched: Sched {
                seed: mix(s, 0x5c4ed),
                switch_ppm: *r.pick(&[1_000_000u32, 300_000, 50_000, 10_000, 2_000, 500]),
                explicit: None,
            },
            log_yield_ppm: *r.pick(&[0u32, 50_000, 500_000, 1_000_000]),
            sentinel,
            keep_log: false,
            heap_perturb: *r.pick(&[0u32, 0, 0, 7, 40, 300]),
            // allocation-point preemption (threads engine): off, coarse, fine
            alloc_yield_mean: *r.pick(&[0u32, 0, 0, 30_000, 4_000, 500]),
            clock_step_ns: *r.pick(&[0u64, 0, 0, 1_000_000, 1_000_000_000, 50_000_000_000]),
            // block-level preemption (threads engine): off, coarse, fine
            block_yield_mean: *r.pick(&[0u32, 0, 0, 100_000, 10_000, 1_000]),
            // atomic-operation preemption (threads engine): off, coarse, fine, every one
            atomic_yield_mean: *r.pick(&[0u32, 0, 200, 20, 3, 1]),
            // conflict-directed holds at atomics callers can communicate through
            atomic_hold_mean: *r.pick(&[0u32, 0, 40, 10, 3, 1]),
            atomic_focus: *r.pick(&[1u32, 2, 4, 8]),
            spin_guard: 0,
            log_level: None,
            fresh_exec: false,
        };
        plan.spin_guard = *Rng::new(mix(s, 0x5919)).pick(&[0u32, 0, 0, 400_000]);
        plan.log_level = *Rng::new(mix(s, 0x106)).pick(&[None, None, None, None, Some(4u8), Some(3), Some(0)]);
        if theme.is_some() {
            // twins are there to meet at the same place: always look for conflicts
            plan.atomic_hold_mean = *tr.pick(&[1u32, 1, 2, 5]);
            plan.atomic_focus = *tr.pick(&[1u32, 3, 6, 12]);
            plan.atomic_yield_mean = *tr.pick(&[0u32, 0, 30, 4]);
        }
        plan
    }
}
