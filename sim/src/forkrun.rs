//! One execution = one forked child of a single-threaded worker. The child
//! starts with pristine library statics (the worker never calls into prqlc),
//! runs the plan, writes the Outcome as JSON to a pipe and `_exit`s.

use std::io::Read;
use std::os::fd::FromRawFd;

use crate::plan::{Outcome, Plan};

#[derive(Debug)]
pub enum ChildFail {
    /// child killed by signal (stack overflow, abort, …)
    Signal(i32),
    /// watchdog fired: the sole OS thread blocked for real or ran away
    Timeout,
    /// exit status != 0 or unparsable output
    Other(String),
}

pub fn run_forked(plan: &Plan, timeout_ms: i32) -> Result<Outcome, ChildFail> {
    unsafe {
        let mut fds = [0i32; 2];
        if libc::pipe(fds.as_mut_ptr()) != 0 {
            return Err(ChildFail::Other("pipe failed".into()));
        }
        let pid = libc::fork();
        if pid < 0 {
            return Err(ChildFail::Other("fork failed".into()));
        }
        if pid == 0 {
            // ---- child
            libc::close(fds[0]);
            // keep chatter (shuttle's messages on failure) away from the report
            let devnull = libc::open(b"/dev/null\0".as_ptr() as *const libc::c_char, libc::O_WRONLY);
            if devnull >= 0 && std::env::var_os("VERIF_CHILD_STDERR").is_none() {
                libc::dup2(devnull, 2);
            }
            let out = crate::exec::run_plan_here(plan);
            let bytes = serde_json::to_vec(&out).unwrap_or_else(|e| {
                format!("{{\"harness_error\":\"serialise: {e}\"}}").into_bytes()
            });
            let mut off = 0usize;
            while off < bytes.len() {
                let n = libc::write(fds[1], bytes[off..].as_ptr() as *const libc::c_void, bytes.len() - off);
                if n <= 0 {
                    libc::_exit(3);
                }
                off += n as usize;
            }
            libc::close(fds[1]);
            libc::_exit(0);
        }
        // ---- parent
        libc::close(fds[1]);
        let mut buf = Vec::new();
        let mut timed_out = false;
        let rfd = fds[0];
        let mut waited = 0i32;
        loop {
            let mut p = libc::pollfd {
                fd: rfd,
                events: libc::POLLIN,
                revents: 0,
            };
            let step = 1000.min(timeout_ms - waited).max(1);
            let r = libc::poll(&mut p, 1, step);
            if r < 0 {
                let e = *libc::__errno_location();
                if e == libc::EINTR {
                    continue;
                }
                break;
            }
            if r == 0 {
                waited += step;
                if waited >= timeout_ms {
                    timed_out = true;
                    libc::kill(pid, libc::SIGKILL);
                    break;
                }
                continue;
            }
            let mut chunk = [0u8; 65536];
            let n = libc::read(rfd, chunk.as_mut_ptr() as *mut libc::c_void, chunk.len());
            if n > 0 {
                buf.extend_from_slice(&chunk[..n as usize]);
            } else if n == 0 {
                break;
            } else {
                let e = *libc::__errno_location();
                if e == libc::EINTR {
                    continue;
                }
                break;
            }
        }
        // drain whatever is left (only relevant after an error)
        let mut f = std::fs::File::from_raw_fd(rfd);
        if !timed_out {
            let _ = f.read_to_end(&mut buf);
        }
        drop(f);
        let mut status = 0i32;
        loop {
            let r = libc::waitpid(pid, &mut status, 0);
            if r == pid {
                break;
            }
            if r < 0 && *libc::__errno_location() != libc::EINTR {
                break;
            }
        }
        if timed_out {
            return Err(ChildFail::Timeout);
        }
        if libc::WIFSIGNALED(status) {
            return Err(ChildFail::Signal(libc::WTERMSIG(status)));
        }
        if !libc::WIFEXITED(status) || libc::WEXITSTATUS(status) != 0 {
            return Err(ChildFail::Other(format!("exit status {status}")));
        }
        serde_json::from_slice::<Outcome>(&buf).map_err(|e| ChildFail::Other(format!("bad child output: {e}")))
    }
}
