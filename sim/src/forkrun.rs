//! One execution = one forked child of a single-threaded worker. The child
//! starts with pristine library statics (the worker never calls into prqlc),
//! runs the plan, writes the Outcome as JSON to a pipe and `_exit`s.

use std::io::Read;
use std::os::fd::FromRawFd;

use crate::plan::{Outcome, Plan};

#[derive(Debug)]
pub enum ChildFail {
    /// child killed by signal (stack overflow, abort, …)
    Signal(i32),
    /// watchdog fired: the sole OS thread blocked for real or ran away
    Timeout,
    /// exit status != 0 or unparsable output
    Other(String),
}

/// Fault `address_space`: replace this (forked) child by a freshly exec'd copy of the
/// simulator, which gets a new address-space layout from the kernel, reads the plan from an
/// inherited memfd, runs it and writes the outcome to the inherited pipe (`sim child`).
/// Never returns.
unsafe fn exec_fresh(plan: &Plan, wfd: i32) -> ! {
    let mut p = plan.clone();
    p.fresh_exec = false;
    let bytes = serde_json::to_vec(&p).unwrap_or_default();
    let mfd = libc::memfd_create(b"plan\0".as_ptr() as *const libc::c_char, 0);
    if mfd < 0 {
        libc::_exit(4);
    }
    let mut off = 0usize;
    while off < bytes.len() {
        let n = libc::write(mfd, bytes[off..].as_ptr() as *const libc::c_void, bytes.len() - off);
        if n <= 0 {
            libc::_exit(4);
        }
        off += n as usize;
    }
    libc::lseek(mfd, 0, libc::SEEK_SET);
    let exe = std::ffi::CString::new("/proc/self/exe").unwrap();
    let a0 = std::ffi::CString::new("sim").unwrap();
    let a1 = std::ffi::CString::new("child").unwrap();
    let a2 = std::ffi::CString::new(mfd.to_string()).unwrap();
    let a3 = std::ffi::CString::new(wfd.to_string()).unwrap();
    let argv = [a0.as_ptr(), a1.as_ptr(), a2.as_ptr(), a3.as_ptr(), std::ptr::null()];
    libc::execv(exe.as_ptr(), argv.as_ptr());
    libc::_exit(5);
}

/// `sim child <plan-fd> <out-fd>`: the exec'd half of `exec_fresh`.
pub fn child_main(rfd: i32, wfd: i32) -> ! {
    unsafe {
        let mut f = std::fs::File::from_raw_fd(rfd);
        let mut buf = Vec::new();
        if f.read_to_end(&mut buf).is_err() {
            libc::_exit(6);
        }
        drop(f);
        let plan: Plan = match serde_json::from_slice(&buf) {
            Ok(p) => p,
            Err(_) => libc::_exit(6),
        };
        drop(buf);
        let out = crate::exec::run_plan_here(&plan);
        let bytes = serde_json::to_vec(&out).unwrap_or_else(|e| {
            format!("{{\"harness_error\":\"serialise: {e}\"}}").into_bytes()
        });
        let mut off = 0usize;
        while off < bytes.len() {
            let n = libc::write(wfd, bytes[off..].as_ptr() as *const libc::c_void, bytes.len() - off);
            if n <= 0 {
                libc::_exit(3);
            }
            off += n as usize;
        }
        libc::close(wfd);
        libc::_exit(0);
    }
}

pub fn run_forked(plan: &Plan, timeout_ms: i32) -> Result<Outcome, ChildFail> {
    unsafe {
        let mut fds = [0i32; 2];
        if libc::pipe(fds.as_mut_ptr()) != 0 {
            return Err(ChildFail::Other("pipe failed".into()));
        }
        let pid = libc::fork();
        if pid < 0 {
            return Err(ChildFail::Other("fork failed".into()));
        }
        if pid == 0 {
            // ---- child
            libc::close(fds[0]);
            // keep chatter (shuttle's messages on failure) away from the report
            let devnull = libc::open(b"/dev/null\0".as_ptr() as *const libc::c_char, libc::O_WRONLY);
            if devnull >= 0 && std::env::var_os("VERIF_CHILD_STDERR").is_none() {
                libc::dup2(devnull, 2);
            }
            if plan.fresh_exec {
                exec_fresh(plan, fds[1]);
            }
            let out = crate::exec::run_plan_here(plan);
            let bytes = serde_json::to_vec(&out).unwrap_or_else(|e| {
                format!("{{\"harness_error\":\"serialise: {e}\"}}").into_bytes()
            });
            let mut off = 0usize;
            while off < bytes.len() {
                let n = libc::write(fds[1], bytes[off..].as_ptr() as *const libc::c_void, bytes.len() - off);
                if n <= 0 {
                    libc::_exit(3);
                }
                off += n as usize;
            }
            libc::close(fds[1]);
            libc::_exit(0);
        }
        // ---- parent
        libc::close(fds[1]);
        let mut buf = Vec::new();
        let mut timed_out = false;
        let rfd = fds[0];
        let mut waited = 0i32;
        loop {
            let mut p = libc::pollfd {
                fd: rfd,
                events: libc::POLLIN,
                revents: 0,
            };
            let step = 1000.min(timeout_ms - waited).max(1);
            let r = libc::poll(&mut p, 1, step);
            if r < 0 {
                let e = *libc::__errno_location();
                if e == libc::EINTR {
                    continue;
                }
                break;
            }
            if r == 0 {
                waited += step;
                if waited >= timeout_ms {
                    timed_out = true;
                    libc::kill(pid, libc::SIGKILL);
                    break;
                }
                continue;
            }
            let mut chunk = [0u8; 65536];
            let n = libc::read(rfd, chunk.as_mut_ptr() as *mut libc::c_void, chunk.len());
            if n > 0 {
                buf.extend_from_slice(&chunk[..n as usize]);
            } else if n == 0 {
                break;
            } else {
                let e = *libc::__errno_location();
                if e == libc::EINTR {
                    continue;
                }
                break;
            }
        }
        // drain whatever is left (only relevant after an error)
        let mut f = std::fs::File::from_raw_fd(rfd);
        if !timed_out {
            let _ = f.read_to_end(&mut buf);
        }
        drop(f);
        let mut status = 0i32;
        loop {
            let r = libc::waitpid(pid, &mut status, 0);
            if r == pid {
                break;
            }
            if r < 0 && *libc::__errno_location() != libc::EINTR {
                break;
            }
        }
        if timed_out {
            return Err(ChildFail::Timeout);
        }
        if libc::WIFSIGNALED(status) {
            return Err(ChildFail::Signal(libc::WTERMSIG(status)));
        }
        if !libc::WIFEXITED(status) || libc::WEXITSTATUS(status) != 0 {
            return Err(ChildFail::Other(format!("exit status {status}")));
        }
        serde_json::from_slice::<Outcome>(&buf).map_err(|e| ChildFail::Other(format!("bad child output: {e}")))
    }
}
