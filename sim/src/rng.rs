//! The only source of randomness in the simulator: splitmix64 streams derived
//! from VERIF_SEED. Nothing here reads a clock, an address or the OS.

#[inline]
pub fn splitmix64(state: &mut u64) -> u64 {
    *state = state.wrapping_add(0x9E37_79B9_7F4A_7C15);
    let mut z = *state;
    z = (z ^ (z >> 30)).wrapping_mul(0xBF58_476D_1CE4_E5B9);
    z = (z ^ (z >> 27)).wrapping_mul(0x94D0_49BB_1331_11EB);
    z ^ (z >> 31)
}

/// Combine two integers into a new, well-mixed one (for deriving sub-seeds).
pub fn mix(a: u64, b: u64) -> u64 {
    let mut s = a ^ b.rotate_left(32) ^ 0xD6E8_FEB8_6659_FD93;
    let x = splitmix64(&mut s);
    let mut t = x ^ b;
    splitmix64(&mut t)
}

pub fn mix3(a: u64, b: u64, c: u64) -> u64 {
    mix(mix(a, b), c)
}

#[derive(Clone, Debug)]
pub struct Rng(pub u64);

impl Rng {
    pub fn new(seed: u64) -> Self {
        Rng(mix(seed, 0x5151_5151))
    }
    pub fn next_u64(&mut self) -> u64 {
        splitmix64(&mut self.0)
    }
    /// Uniform in 0..n (n > 0).
    pub fn below(&mut self, n: usize) -> usize {
        debug_assert!(n > 0);
        ((self.next_u64() >> 11) % (n as u64)) as usize
    }
    pub fn range(&mut self, lo: usize, hi_incl: usize) -> usize {
        lo + self.below(hi_incl - lo + 1)
    }
    /// True with probability ppm / 1_000_000.
    pub fn ppm(&mut self, ppm: u32) -> bool {
        if ppm == 0 {
            return false;
        }
        if ppm >= 1_000_000 {
            return true;
        }
        ((self.next_u64() >> 11) % 1_000_000) < ppm as u64
    }
    pub fn chance(&mut self, num: usize, den: usize) -> bool {
        self.below(den) < num
    }
    pub fn pick<'a, T>(&mut self, xs: &'a [T]) -> &'a T {
        &xs[self.below(xs.len())]
    }
    pub fn shuffle<T>(&mut self, xs: &mut [T]) {
        for i in (1..xs.len()).rev() {
            let j = self.below(i + 1);
            xs.swap(i, j);
        }
    }
    pub fn fork(&mut self, tag: u64) -> Rng {
        Rng(mix(self.next_u64(), tag))
    }
}

pub const FNV_OFFSET: u64 = 0xcbf2_9ce4_8422_2325;

#[inline]
pub fn fnv_update(mut h: u64, bytes: &[u8]) -> u64 {
    for b in bytes {
        h ^= *b as u64;
        h = h.wrapping_mul(0x0000_0100_0000_01B3);
    }
    h
}

pub fn fnv(bytes: &[u8]) -> u64 {
    fnv_update(FNV_OFFSET, bytes)
}
