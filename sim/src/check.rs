//! The oracle: a stateless reference model. `ref(op, env)` is the observation
//! the *same build* produces for the operation in a pristine process: one
//! thread, no earlier call, hash base 0, identity file order, no fault.
//! Every call of every simulated execution must equal it.

use std::collections::HashMap;

use serde::{Deserialize, Serialize};

use crate::forkrun::{run_forked, ChildFail};
use crate::ops::{Obs, Op};
use crate::plan::{Call, CallOut, Outcome, Plan, Sched};

/// Watchdog for one operation in its reference context. An operation slower than this is
/// unusable as a call (its reference is `None`, it is dropped from plans or left unjudged).
pub const REF_TIMEOUT_MS: i32 = 5_000;
/// Watchdog floor for a whole plan.
pub const CHILD_TIMEOUT_MS: i32 = 30_000;

/// Watchdog for a plan: every call is known to finish within REF_TIMEOUT_MS in its
/// reference context, so a sequential plan that needs more than that per call plus 30 s of
/// slack has a call that does not return where its reference does.
pub fn plan_timeout_ms(plan: &Plan) -> i32 {
    let warm = plan.threads.iter().flatten().filter(|c| c.warm).count();
    let calls = plan.threads.iter().map(|t| t.len()).sum::<usize>() + plan.sentinel.len() - warm;
    if warm > 0 && !plan.shuttle {
        // a long history of small filler calls: they take milliseconds each
        return CHILD_TIMEOUT_MS / 2 + (REF_TIMEOUT_MS + 1_000) * calls as i32 + 150 * warm as i32;
    }
    if plan.shuttle {
        // an interleaved run that blocks the simulator for real (a blocking primitive without
        // a hook) should be noticed quickly; it is then re-run sequentially, not reported
        CHILD_TIMEOUT_MS + 2_000 * calls as i32
    } else {
        // at least the sum of what the calls may take in their reference contexts, plus slack
        CHILD_TIMEOUT_MS / 2 + (REF_TIMEOUT_MS + 1_000) * calls as i32
    }
}

/// The canonical form of an operation: what the reference context executes.
pub fn canon_op(op: &Op) -> Op {
    match op {
        Op::Project {
            files,
            main_path,
            opts,
            abs_prefix,
            ..
        } => Op::Project {
            files: files.clone(),
            order: (0..files.len()).collect(),
            via_hashmap: false,
            dups: Vec::new(),
            via_insert: false,
            sibling_first: false,
            abs_prefix: abs_prefix.clone(),
            main_path: main_path.clone(),
            opts: opts.clone(),
        },
        // the CLI process under hash base 0 with its directories enumerated in sorted order
        Op::Cli {
            files,
            args,
            main_path,
            rewrite,
            debug_log,
            input,
            ..
        } => Op::Cli {
            files: files.clone(),
            args: args.clone(),
            main_path: main_path.clone(),
            rewrite: *rewrite,
            debug_log: *debug_log,
            input: *input,
            hash_base: 0,
            readdir_seed: 0,
        },
        // what the buffer held before must not matter
        Op::EditInPlace { src, .. } => Op::EditInPlace {
            before: src.clone(),
            src: src.clone(),
        },
        // the work in between must not matter: the reference is plain staged compilation -
        // through the same documents when the operation passes the RQ through JSON (whether a
        // document reads back as the value it was written from is another property's matter)
        Op::StagedSplit {
            src,
            opts,
            via_json: true,
            ..
        } => Op::StagedSplit {
            src: src.clone(),
            between: String::new(),
            via_json: true,
            opts: opts.clone(),
        },
        Op::StagedSplit { src, opts, .. } => Op::Staged {
            src: src.clone(),
            opts: opts.clone(),
        },
        Op::StagedJson { src, opts, .. } => Op::StagedJson {
            src: src.clone(),
            between: None,
            opts: opts.clone(),
        },
        o => o.clone(),
    }
}

pub fn ref_plan(op: &Op, env: &Option<String>) -> Plan {
    Plan {
        stratum: "ref".into(),
        exec_seed: 0,
        shuttle: false,
        engine: String::new(),
        hash_base: 0,
        env_before: env.clone(),
        // the call runs on a fresh thread whose keys are (base 0, first draw): the
        // same context as call 0 of a stratum-A plan, so both define one reference
        threads: vec![vec![Call {
            op: canon_op(op),
            hash_base: Some(0),
            panic_at: None,
            session: false,
            warm: false,
            log_level: None,
        }]],
        sched: Sched::default(),
        log_yield_ppm: 0,
        sentinel: vec![],
        keep_log: false,
        heap_perturb: 0,
        alloc_yield_mean: 0,
        clock_step_ns: 0,
        block_yield_mean: 0,
            atomic_yield_mean: 0,
            atomic_hold_mean: 0,
            atomic_focus: 0,
            spin_guard: 0,
            log_level: None,
            fresh_exec: false,
    }
}

#[derive(Default)]
pub struct RefTable {
    cache: HashMap<String, Option<Obs>>,
    pub computed: u64,
    pub crashed: u64,
}

impl RefTable {
    fn key(op: &Op, env: &Option<String>) -> String {
        format!(
            "{}|{}",
            env.as_deref().unwrap_or("<unset>"),
            serde_json::to_string(&canon_op(op)).unwrap()
        )
    }
    pub fn seed(&mut self, op: &Op, env: &Option<String>, obs: &Obs) {
        self.cache.entry(Self::key(op, env)).or_insert_with(|| Some(obs.clone()));
    }
    /// None: the reference context itself kills the process (stack overflow,
    /// abort) or times out — such an operation is unusable as a call.
    pub fn get(&mut self, op: &Op, env: &Option<String>) -> Option<Obs> {
        let k = Self::key(op, env);
        if let Some(v) = self.cache.get(&k) {
            return v.clone();
        }
        self.computed += 1;
        let v = match run_forked(&ref_plan(op, env), REF_TIMEOUT_MS) {
            Ok(o) if o.harness_error.is_none() && o.calls.len() == 1 && o.calls[0].len() == 1 => {
                Some(o.calls[0][0].obs.clone())
            }
            _ => {
                self.crashed += 1;
                None
            }
        };
        if self.cache.len() > 200_000 {
            self.cache.clear();
        }
        self.cache.insert(k, v.clone());
        v
    }
}

#[derive(Serialize, Deserialize, Clone, Debug)]
pub struct Violation {
    /// thread index, or usize::MAX for the sentinel phase / whole execution
    pub phase: String,
    pub thread: usize,
    pub call: usize,
    pub op_kind: String,
    pub expected: Obs,
    pub actual: Obs,
    pub offset: usize,
    pub element: String,
}

impl Violation {
    pub fn signature(&self) -> String {
        if self.actual.class == "panic" && self.expected.class != "panic" {
            // one root cause panics whatever the entry point: cluster by where it panicked
            let loc = self.actual.text.rsplit(" @ ").next().unwrap_or("?");
            let loc = loc.rsplit('/').next().unwrap_or(loc);
            return format!("*:{}->panic:{}", self.expected.class, loc);
        }
        format!(
            "{}:{}->{}:{}",
            self.op_kind, self.expected.class, self.actual.class, self.element
        )
    }
}

const MARKERS: &[&str] = &[
    "ORDER BY",
    "GROUP BY",
    "PARTITION BY",
    "SELECT",
    "FROM",
    "WHERE",
    "JOIN",
    "WITH",
    "UNION",
    "LIMIT",
    "\"hints\"",
    "\"reason\"",
    "\"display\"",
    "\"span\"",
    "\"location\"",
    "\"code\"",
    "\"Select\"",
    "\"Sort\"",
    "\"Compute\"",
    "\"columns\"",
    "\"relation\"",
    "\"tables\"",
    "\"named_args\"",
    "FMT ",
    "\nRQ ",
    "\nSQL ",
    "PL ",
    "RQERR",
    "SQLERR",
    "PLERR",
];

pub fn first_diff(a: &str, b: &str) -> usize {
    let (x, y) = (a.as_bytes(), b.as_bytes());
    let n = x.len().min(y.len());
    for i in 0..n {
        if x[i] != y[i] {
            return i;
        }
    }
    n
}

/// Coarse locator of the output element in which the first differing byte
/// lies: the nearest marker before it.
pub fn element_at(text: &str, off: usize) -> String {
    let mut cut = off.min(text.len());
    while cut > 0 && !text.is_char_boundary(cut) {
        cut -= 1;
    }
    let head = &text[..cut];
    let mut best: Option<(usize, &str)> = None;
    for m in MARKERS {
        if let Some(p) = head.rfind(m) {
            if best.is_none_or(|(bp, _)| p > bp) {
                best = Some((p, m));
            }
        }
    }
    best.map(|(_, m)| m.trim().trim_matches('"').to_string())
        .unwrap_or_else(|| "text".to_string())
}

pub fn mk_violation(phase: &str, thread: usize, call: usize, op: &Op, expected: &Obs, actual: &Obs) -> Violation {
    let (offset, element) = if expected.class != actual.class {
        (0, "outcome-class".to_string())
    } else {
        let o = first_diff(&expected.text, &actual.text);
        (o, element_at(&expected.text, o))
    };
    Violation {
        phase: phase.into(),
        thread,
        call,
        op_kind: op.kind().into(),
        expected: expected.clone(),
        actual: actual.clone(),
        offset,
        element,
    }
}

#[derive(Default)]
pub struct CheckResult {
    pub violations: Vec<Violation>,
    /// some call could not be judged because its reference context crashes
    pub unjudged: usize,
    pub judged: usize,
    /// calls that received an injected panic: their own outcome is not judged
    pub faulted: usize,
    pub harness_error: Option<String>,
}

fn judge(
    res: &mut CheckResult,
    refs: &mut RefTable,
    phase: &str,
    t: usize,
    k: usize,
    call: &Call,
    out: &CallOut,
    env: &mut Option<String>,
) {
    if let Op::SetEnv { value } = &call.op {
        *env = value.clone();
        return;
    }
    if let Op::SetCwd { .. } = &call.op {
        return;
    }
    if call.warm {
        // history filler of a long history: executed, not compared
        return;
    }
    if out.obs.class == "noreturn" && res.violations.iter().any(|v| v.phase == "execution") {
        // the execution as a whole died (deadlock, step cap) and that is reported once;
        // the calls it took with it are consequences, not separate findings
        return;
    }
    if out.fault_fired {
        // The one deliberate relaxation: the call that received the injected panic is not
        // judged. It normally panics, but a library that catches its internal panics and
        // returns an error instead is within its rights (an earlier version of this rule
        // demanded the panic and would have flagged that — seeded change S35 showed it).
        // What the fault is for is everything *else*: the other calls and the sentinel.
        res.faulted += 1;
        return;
    }
    match refs.get(&call.op, env) {
        None => res.unjudged += 1,
        Some(exp) => {
            res.judged += 1;
            if !exp.same(&out.obs) {
                res.violations.push(mk_violation(phase, t, k, &call.op, &exp, &out.obs));
            }
        }
    }
}

/// Is the shuttle failure message a property-level outcome (deadlock, step
/// cap) rather than a defect of the harness?
pub fn classify_noreturn(msg: &str) -> Option<&'static str> {
    let m = msg.to_lowercase();
    if m.contains("deadlock") {
        Some("deadlock")
    } else if m.contains("max_steps") || m.contains("exceeded") {
        Some("step-cap")
    } else {
        None
    }
}

pub fn check_outcome(plan: &Plan, out: &Outcome, refs: &mut RefTable) -> CheckResult {
    let mut res = CheckResult::default();
    if let Some(e) = &out.harness_error {
        res.harness_error = Some(e.clone());
        return res;
    }
    if out.calls.len() != plan.threads.len()
        || out.calls.iter().zip(&plan.threads).any(|(a, b)| a.len() != b.len())
        || out.sentinel.len() != plan.sentinel.len()
    {
        res.harness_error = Some("outcome shape does not match plan".into());
        return res;
    }
    if let Some(msg) = &out.noreturn {
        match classify_noreturn(msg) {
            Some(kind) => {
                let dummy = Op::SetEnv { value: None };
                let mut v = mk_violation(
                    "execution",
                    usize::MAX,
                    0,
                    &dummy,
                    &Obs::ok("all calls return".into()),
                    &Obs::noreturn(msg.clone()),
                );
                v.element = kind.to_string();
                v.op_kind = "execution".into();
                res.violations.push(v);
            }
            None => {
                res.harness_error = Some(format!("scheduler failure: {msg}"));
                return res;
            }
        }
    }
    // stratum A: call 0 *is* the reference context (pristine process, base 0, canonical op)
    // (not when the execution ran in a fresh address space: then the reference is the usual
    // forked child, whose layout differs from the execution's)
    if plan.stratum == "A" && !plan.fresh_exec && !plan.threads.is_empty() && !plan.threads[0].is_empty() {
        let c0 = &plan.threads[0][0];
        if c0.hash_base == Some(0) && c0.panic_at.is_none() && !c0.session && canon_op(&c0.op) == c0.op {
            refs.seed(&c0.op, &plan.env_before, &out.calls[0][0].obs);
        }
    }
    let mut env = plan.env_before.clone();
    for (t, calls) in plan.threads.iter().enumerate() {
        for (k, c) in calls.iter().enumerate() {
            judge(&mut res, refs, "call", t, k, c, &out.calls[t][k], &mut env);
        }
    }
    for (k, c) in plan.sentinel.iter().enumerate() {
        judge(&mut res, refs, "sentinel", usize::MAX, k, c, &out.sentinel[k], &mut env);
    }
    res
}

fn execution_violation(element: &str, msg: String) -> Violation {
    let dummy = Op::SetEnv { value: None };
    let mut v = mk_violation(
        "execution",
        usize::MAX,
        0,
        &dummy,
        &Obs::ok("every call returns and the process survives".into()),
        &Obs::noreturn(msg),
    );
    v.element = element.to_string();
    v.op_kind = "execution".into();
    v
}

/// Does every operation of the plan survive (and return from) its own reference context?
fn refs_all_alive(plan: &Plan, refs: &mut RefTable) -> bool {
    let mut env = plan.env_before.clone();
    let mut alive = true;
    for c in plan.threads.iter().flatten().chain(plan.sentinel.iter()) {
        if let Op::SetEnv { value } = &c.op {
            env = value.clone();
            continue;
        }
        if let Op::SetCwd { .. } = &c.op {
            continue;
        }
        if refs.get(&c.op, &env).is_none() {
            alive = false;
        }
    }
    alive
}

/// Run a plan in a pristine child and judge it. Err = harness-level failure.
///
/// A child that dies (signal) or never finishes is an outcome of the *code* when every
/// operation survives its reference context and it happens again on re-execution:
/// `process-abort`, or — for sequential plans only — `no-return`. In shuttle mode the sole
/// OS thread can also block because of a blocking primitive the shadow locks do not model,
/// which is a limit of the harness, so a timeout there stays a harness error.
pub fn run_and_check(plan: &Plan, refs: &mut RefTable) -> Result<(Outcome, CheckResult), String> {
    let timeout = plan_timeout_ms(plan);
    match run_forked(plan, timeout) {
        Ok(out) => {
            let res = check_outcome(plan, &out, refs);
            Ok((out, res))
        }
        Err(ChildFail::Timeout) => {
            if plan.shuttle {
                return Err("watchdog: child did not finish within the time limit (unmodelled blocking primitive or runaway computation)".into());
            }
            let mut res = CheckResult::default();
            if !refs_all_alive(plan, refs) {
                res.unjudged = 1;
                return Ok((Outcome::default(), res));
            }
            match run_forked(plan, timeout) {
                Err(ChildFail::Timeout) => {
                    res.judged = 1;
                    res.violations.push(execution_violation(
                        "no-return",
                        format!("sequential execution did not finish within {timeout} ms although every call returns within {REF_TIMEOUT_MS} ms in its reference context"),
                    ));
                    Ok((Outcome::default(), res))
                }
                _ => Err("watchdog fired once but not on re-execution".into()),
            }
        }
        Err(ChildFail::Signal(sig)) => {
            let mut res = CheckResult::default();
            if !refs_all_alive(plan, refs) {
                // some operation kills the process already in its reference context
                // (stack overflow, abort): nothing to compare
                res.unjudged = 1;
                return Ok((Outcome::default(), res));
            }
            match run_forked(plan, timeout) {
                Err(ChildFail::Signal(s2)) if s2 == sig => {
                    res.judged = 1;
                    res.violations.push(execution_violation(
                        "process-abort",
                        format!("process killed by signal {sig} although every call survives its reference context"),
                    ));
                    Ok((Outcome::default(), res))
                }
                _ => Err(format!("child killed by signal {sig}, not reproducible")),
            }
        }
        Err(ChildFail::Other(e)) => Err(format!("child failed: {e}")),
    }
}
