fn main() { println!("{:?}", prqlc::compile("from a", &prqlc::Options::default())); }
