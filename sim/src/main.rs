#![recursion_limit = "256"]
mod atomics;
mod check;
mod exec;
mod forkrun;
mod gen;
mod minimize;
mod ops;
mod plan;
mod rng;
mod seams;
mod threads;
mod worker;

use std::alloc::{GlobalAlloc, Layout, System};
use std::collections::{BTreeMap, HashMap, HashSet};
use std::io::{BufRead, BufReader};
use std::process::{Command, Stdio};

use serde::{Deserialize, Serialize};

use check::{RefTable, Violation};
use plan::Plan;
use worker::{ExecReport, FaultCounts, HarvestReport, Tier, WorkerCfg};

/// The system allocator with one addition: every allocation is a potential scheduling point
/// of the simulator (threads.rs `alloc_point`; a no-op unless a plan turned it on for the
/// library code of a running call).
struct SimAlloc;

unsafe impl GlobalAlloc for SimAlloc {
    unsafe fn alloc(&self, l: Layout) -> *mut u8 {
        threads::alloc_point();
        System.alloc(l)
    }
    unsafe fn alloc_zeroed(&self, l: Layout) -> *mut u8 {
        threads::alloc_point();
        System.alloc_zeroed(l)
    }
    unsafe fn dealloc(&self, p: *mut u8, l: Layout) {
        System.dealloc(p, l)
    }
    unsafe fn realloc(&self, p: *mut u8, l: Layout, n: usize) -> *mut u8 {
        threads::alloc_point();
        System.realloc(p, l, n)
    }
}

#[global_allocator]
static GLOBAL: SimAlloc = SimAlloc;

const DEFAULT_SEED: u64 = 20260924;

#[derive(Serialize, Deserialize, Clone, Debug)]
pub struct ReplayFile {
    pub property: String,
    pub kind: String,
    pub verif_seed: u64,
    pub stratum: String,
    pub index: u64,
    pub signature: String,
    pub minimised: bool,
    pub plan: Plan,
    pub violation: Violation,
    #[serde(default)]
    pub notes: Vec<String>,
}

fn tier_params(tier: &str) -> Tier {
    match tier {
        "thorough" => Tier {
            harvest_gen: 40_000,
            a: 120_000,
            a_k: 8,
            b: 60_000,
            c: 60_000,
        },
        // development aid: the concurrent stratum only
        "conc" => Tier {
            harvest_gen: 300,
            a: 16,
            a_k: 1,
            b: 16,
            c: 30_000,
        },
        // development aid: the single-call stratum only (hash seeds, enumeration orders, CLI)
        "seedonly" => Tier {
            harvest_gen: 300,
            a: 6_000,
            a_k: 4,
            b: 16,
            c: 16,
        },
        "smoke" => Tier {
            harvest_gen: 300,
            a: 200,
            a_k: 3,
            b: 100,
            c: 100,
        },
        _ => Tier {
            harvest_gen: 3_000,
            a: 6_000,
            a_k: 4,
            b: 3_000,
            c: 3_600,
        },
    }
}

/// Root of the verification tree this binary belongs to (<root>/sim/target/debug/sim),
/// unless VERIF_ROOT says otherwise.
pub fn verif_root() -> String {
    if let Ok(r) = std::env::var("VERIF_ROOT") {
        return r;
    }
    std::env::current_exe()
        .ok()
        .and_then(|e| e.ancestors().nth(4).map(|p| p.to_string_lossy().to_string()))
        .filter(|p| std::path::Path::new(&format!("{p}/corpus")).is_dir())
        .unwrap_or_else(|| "/verif".to_string())
}

fn arg_val(args: &[String], name: &str) -> Option<String> {
    args.iter()
        .position(|a| a == name)
        .and_then(|p| args.get(p + 1).cloned())
}

/// What is left in a minimised plan tells which part of the context matters.
fn classify_kind(plan: &Plan, v: &Violation) -> String {
    if v.element == "unseamed-nondeterminism" {
        return "unseamed_nondeterminism".into();
    }
    if plan.engine == "free" {
        return "uncontrolled_concurrency".into();
    }
    if v.element == "deadlock" || v.element == "step-cap" || v.actual.class == "noreturn" {
        return "deadlock_or_no_return".into();
    }
    let ncalls: usize = plan.threads.iter().map(|t| t.len()).sum::<usize>() + plan.sentinel.len();
    let faults = plan
        .threads
        .iter()
        .flatten()
        .chain(plan.sentinel.iter())
        .any(|c| c.panic_at.is_some() || c.session)
        || plan.env_before.is_some();
    let permuted = plan.threads.iter().flatten().any(|c| match &c.op {
        ops::Op::Project {
            order,
            via_hashmap,
            dups,
            via_insert,
            ..
        } => *via_hashmap || *via_insert || !dups.is_empty() || order.iter().enumerate().any(|(i, o)| i != *o),
        ops::Op::Cli { readdir_seed, .. } => *readdir_seed != 0,
        _ => false,
    });
    if plan.fresh_exec {
        // the fresh address space survived minimisation: the output depends on it
        "address_space_divergence".into()
    } else if plan.shuttle {
        "schedule_divergence".into()
    } else if plan.clock_step_ns > 0 {
        "clock_divergence".into()
    } else if plan.heap_perturb > 0 {
        "heap_layout_divergence".into()
    } else if plan.log_level.is_some() || plan.threads.iter().flatten().any(|c| c.log_level.is_some()) {
        // the host's `log` maximum level survived minimisation: the output depends on it
        "log_level_divergence".into()
    } else if ncalls > 1 || faults {
        "history_divergence".into()
    } else if permuted {
        "enumeration_divergence".into()
    } else {
        "seed_divergence".into()
    }
}

fn cmd_replay(path: &str) -> i32 {
    let text = match std::fs::read_to_string(path) {
        Ok(t) => t,
        Err(e) => {
            eprintln!("cannot read {path}: {e}");
            return 2;
        }
    };
    let rf: ReplayFile = match serde_json::from_str(&text) {
        Ok(r) => r,
        Err(e) => {
            eprintln!("bad replay file {path}: {e}");
            return 2;
        }
    };
    let mut refs = RefTable::default();
    let mut plan = rf.plan.clone();
    plan.keep_log = true;
    let tries = if rf.kind == "address_space_divergence" || rf.plan.fresh_exec || rf.kind == "unseamed_nondeterminism" || rf.kind == "uncontrolled_concurrency" || rf.plan.engine == "free" {
        50
    } else {
        1
    };
    for _ in 0..tries {
        match check::run_and_check(&plan, &mut refs) {
            Ok((out, res)) => {
                if let Some(e) = res.harness_error {
                    eprintln!("HARNESS-ERROR {e}");
                    return 2;
                }
                if let Some(v) = res.violations.first() {
                    println!("replay of {path}: property {} violated again", rf.property);
                    println!("  kind        {}", rf.kind);
                    println!("  at          {} thread={} call={} ({})", v.phase, v.thread as isize, v.call, v.op_kind);
                    println!("  element     {} (first differing byte {})", v.element, v.offset);
                    println!("  expected    [{}] {}", v.expected.class, clip(&v.expected.text, 600));
                    println!("  actual      [{}] {}", v.actual.class, clip(&v.actual.text, 600));
                    println!("  event-log   {} events, digest {:016x}", out.nevents, out.digest);
                    let same = v.signature() == rf.signature && v.offset == rf.violation.offset;
                    println!("  identical to recorded violation: {same}");
                    println!("VIOLATION property={} replay={}", rf.property, path);
                    return 1;
                }
            }
            Err(e) => {
                eprintln!("HARNESS-ERROR {e}");
                return 2;
            }
        }
    }
    println!("replay of {path}: no violation (property held)");
    0
}

fn clip(s: &str, n: usize) -> String {
    let mut t: String = s.chars().take(n).collect();
    if s.chars().count() > n {
        t.push('…');
    }
    t.replace('\n', "\\n")
}

fn cmd_minimize(inp: &str, outp: &str, budget: usize, wall_cap: Option<u64>) -> i32 {
    let text = std::fs::read_to_string(inp).expect("read replay");
    let mut rf: ReplayFile = serde_json::from_str(&text).expect("parse replay");
    let mut m = minimize::Minimizer::new(&rf.violation, budget);
    if let Some(c) = wall_cap {
        m.wall_cap_s = m.wall_cap_s.min(c);
    }
    // must fail to begin with
    let Some((v0, _)) = m.fails(&rf.plan) else {
        eprintln!("minimize: input does not fail (with the recorded kind) when re-run");
        return 3;
    };
    rf.violation = v0;
    let small = m.minimize(&rf.plan);
    let mut m2 = minimize::Minimizer::new(&rf.violation, 5);
    match m2.fails(&small) {
        Some((v, sched)) => {
            rf.plan = small;
            if rf.plan.shuttle && rf.plan.sched.explicit.is_none() {
                rf.plan.sched.explicit = Some(sched);
            }
            rf.kind = classify_kind(&rf.plan, &v);
            rf.signature = v.signature();
            rf.violation = v;
            rf.minimised = true;
            rf.notes.push(format!("minimised with {} candidate executions", m.evals));
        }
        None => {
            rf.notes.push("minimised plan did not fail again; raw plan kept".into());
        }
    }
    std::fs::write(outp, serde_json::to_string_pretty(&rf).unwrap()).expect("write");
    0
}

struct Agg {
    evaluations: u64,
    per_stratum: BTreeMap<String, u64>,
    calls: u64,
    judged: u64,
    unjudged: u64,
    ctx: HashSet<u64>,
    scheds: HashSet<u64>,
    canaries: HashSet<String>,
    digests: HashSet<u64>,
    faults: FaultCounts,
    fault_execs: BTreeMap<String, u64>,
    probes: BTreeMap<String, u64>,
    counters: BTreeMap<String, u64>,
    steps: u64,
    switches: u64,
    nevents: u64,
    reruns: u64,
    reruns_same: u64,
    herrs: Vec<(String, u64, String, Option<Plan>)>,
    viols: Vec<(String, u64, Violation, Plan)>,
    samples: Vec<serde_json::Value>,
    op_kinds: BTreeMap<String, u64>,
    refs_computed: u64,
    refs_crashed: u64,
    degraded: u64,
    digest_mismatches: u64,
    ext_block_execs: u64,
    engines: BTreeMap<String, u64>,
    programs: HashSet<u64>,
}

impl Agg {
    fn new() -> Self {
        Agg {
            evaluations: 0,
            per_stratum: BTreeMap::new(),
            calls: 0,
            judged: 0,
            unjudged: 0,
            ctx: HashSet::new(),
            scheds: HashSet::new(),
            canaries: HashSet::new(),
            digests: HashSet::new(),
            faults: FaultCounts::default(),
            fault_execs: BTreeMap::new(),
            probes: BTreeMap::new(),
            counters: BTreeMap::new(),
            steps: 0,
            switches: 0,
            nevents: 0,
            reruns: 0,
            reruns_same: 0,
            herrs: Vec::new(),
            viols: Vec::new(),
            samples: Vec::new(),
            op_kinds: BTreeMap::new(),
            refs_computed: 0,
            refs_crashed: 0,
            degraded: 0,
            digest_mismatches: 0,
            ext_block_execs: 0,
            engines: BTreeMap::new(),
            programs: HashSet::new(),
        }
    }
    fn bump(m: &mut BTreeMap<String, u64>, k: &str, by: u64) {
        *m.entry(k.to_string()).or_insert(0) += by;
    }
    fn add(&mut self, r: ExecReport) {
        self.evaluations += 1;
        Self::bump(&mut self.per_stratum, &r.stratum, 1);
        self.refs_computed += r.refs_computed;
        self.refs_crashed += r.refs_crashed;
        if r.degraded {
            self.degraded += 1;
        }
        if r.digest_mismatch {
            self.digest_mismatches += 1;
        }
        if r.ext_blocks > 0 {
            self.ext_block_execs += 1;
        }
        if r.stratum == "C" {
            let e = if r.degraded { "sequential (degraded)".to_string() } else { r.engine.clone() };
            Self::bump(&mut self.engines, &e, 1);
        }
        if let Some(e) = r.herr {
            self.herrs.push((r.stratum.clone(), r.i, e, r.plan.clone()));
            return;
        }
        self.calls += r.calls;
        self.judged += r.judged;
        self.unjudged += r.unjudged;
        if r.nontrivial {
            self.ctx.insert(r.ctxkey);
        }
        if r.stratum == "C" && !r.degraded {
            self.scheds.insert(r.schedkey);
        }
        self.canaries.insert(r.canary.clone());
        self.programs.extend(r.prog_keys.iter().copied());
        self.digests.insert(r.digest);
        self.faults.add(&r.faults);
        let f = &r.faults;
        for (k, v) in [
            ("hash_reseed", f.hash_reseed),
            ("enum_permute", f.enum_permute),
            ("preempt", f.preempt),
            ("stall", f.stall),
            ("panic_real", f.panic_real),
            ("panic_injected", f.panic_injected_fired),
            ("failed_call", f.failed_call),
            ("env_change", f.env_change),
            ("debug_session", f.debug_session),
            ("heap_layout", f.heap_layout),
            ("clock", f.clock),
            ("log_level", f.log_level),
            ("address_space", f.address_space),
            ("cli_process", f.cli_process),
            ("cli_readdir_permuted", f.cli_readdir_permuted),
        ] {
            if v > 0 {
                Self::bump(&mut self.fault_execs, k, 1);
            }
        }
        let c = &r.counters;
        for (k, v) in [
            ("calls_overlapped", c.calls_overlapped),
            ("std_init_contended", c.std_init_contended),
            ("once_init_contended", c.once_contended),
            ("current_log_contended", c.rw_contended),
            ("panic_while_other_call_in_flight", c.panics_while_other_in_flight),
            ("debug_session_records_forwarded", c.session_records),
        ] {
            if v > 0 {
                Self::bump(&mut self.probes, k, 1);
            }
        }
        if r.sentinel_after_panic {
            Self::bump(&mut self.probes, "sentinel_ran_after_panic", 1);
        }
        for (k, v) in [
            ("hook_events", c.hook_events),
            ("rw_acquires", c.rw_acquires),
            ("once_inits", c.once_inits),
            ("log_records", c.log_records),
            ("log_yields", c.log_yields),
            ("alloc_yields", c.alloc_yields),
            ("block_yields", c.block_yields),
            ("atomic_yields", c.atomic_yields),
            ("atomic_ops", c.atomic_ops),
            ("atomic_holds", c.atomic_holds),
            ("atomic_conflicts", c.atomic_conflicts),
        ] {
            Self::bump(&mut self.counters, k, v);
        }
        for k in &r.op_kinds {
            Self::bump(&mut self.op_kinds, k, 1);
        }
        self.steps += r.steps;
        self.switches += r.switches;
        self.nevents += r.nevents;
        if let Some(s) = r.rerun_same {
            self.reruns += 1;
            if s {
                self.reruns_same += 1;
            }
        }
        if let Some(s) = r.sample {
            if self.samples.len() < 6 {
                self.samples.push(serde_json::json!({"stratum": r.stratum, "index": r.i, "execution": s}));
            }
        }
        if let Some(p) = r.plan {
            for v in r.viol {
                self.viols.push((r.stratum.clone(), r.i, v, p.clone()));
            }
        }
    }
}

fn spawn_workers(
    exe: &std::path::Path,
    phase: &str,
    seed: u64,
    tier: &Tier,
    nw: u64,
    panickers: Option<&str>,
    mut on_line: impl FnMut(&str),
) -> Result<(), String> {
    let (tx, rx) = std::sync::mpsc::channel::<Option<String>>();
    let mut children = Vec::new();
    for w in 0..nw {
        let mut c = Command::new(exe);
        c.arg("worker")
            .arg("--phase")
            .arg(phase)
            .arg("--seed")
            .arg(seed.to_string())
            .arg("--tier-json")
            .arg(serde_json::to_string(tier).unwrap())
            .arg("--w")
            .arg(w.to_string())
            .arg("--nw")
            .arg(nw.to_string());
        if let Some(p) = panickers {
            c.arg("--panickers").arg(p);
        }
        c.stdout(Stdio::piped()).stdin(Stdio::null());
        let mut ch = c.spawn().map_err(|e| format!("spawn worker: {e}"))?;
        let out = ch.stdout.take().unwrap();
        let tx = tx.clone();
        std::thread::spawn(move || {
            let rd = BufReader::with_capacity(1 << 20, out);
            for l in rd.lines().map_while(Result::ok) {
                if tx.send(Some(l)).is_err() {
                    break;
                }
            }
            let _ = tx.send(None);
        });
        children.push(ch);
    }
    drop(tx);
    let mut done = 0;
    while done < nw {
        match rx.recv() {
            Ok(Some(l)) => on_line(&l),
            Ok(None) => done += 1,
            Err(_) => break,
        }
    }
    for mut ch in children {
        let st = ch.wait().map_err(|e| format!("wait worker: {e}"))?;
        if !st.success() {
            return Err(format!("worker exited with {st}"));
        }
    }
    Ok(())
}

fn scan_for(dir: &str, needle: &str, hits: &mut Vec<String>) {
    let Ok(rd) = std::fs::read_dir(dir) else { return };
    let mut entries: Vec<_> = rd.filter_map(|e| e.ok()).map(|e| e.path()).collect();
    entries.sort();
    for p in entries {
        if p.is_dir() {
            scan_for(&p.to_string_lossy(), needle, hits);
        } else if p.extension().is_some_and(|e| e == "rs") {
            if let Ok(t) = std::fs::read_to_string(&p) {
                if t.contains(needle) {
                    hits.push(p.to_string_lossy().to_string());
                }
            }
        }
    }
}

fn load_known() -> (Vec<String>, Vec<String>) {
    let path = std::env::var("VERIF_KNOWN").unwrap_or_else(|_| format!("{}/known-findings.txt", verif_root()));
    let mut known = Vec::new();
    let mut fixed = Vec::new();
    if let Ok(t) = std::fs::read_to_string(path) {
        for l in t.lines() {
            let l = l.trim();
            if let Some(r) = l.strip_prefix("known:") {
                known.push(r.trim().to_string());
            } else if let Some(r) = l.strip_prefix("fixed:") {
                fixed.push(r.trim().to_string());
            }
        }
    }
    (known, fixed)
}

fn cmd_run(args: &[String]) -> i32 {
    let t0 = std::time::Instant::now();
    let tier_name = arg_val(args, "--tier")
        .or_else(|| std::env::var("VERIF_TIER").ok())
        .unwrap_or_else(|| "quick".into());
    let seed: u64 = arg_val(args, "--seed")
        .or_else(|| std::env::var("VERIF_SEED").ok())
        .and_then(|s| s.trim().parse().ok())
        .unwrap_or(DEFAULT_SEED);
    let nw: u64 = arg_val(args, "--workers")
        .and_then(|s| s.parse().ok())
        .unwrap_or_else(|| std::thread::available_parallelism().map(|n| n.get() as u64).unwrap_or(8).min(16));
    let root = verif_root();
    let evidence_path = arg_val(args, "--evidence").unwrap_or_else(|| format!("{root}/evidence/C11.json"));
    let replay_dir = arg_val(args, "--replays").unwrap_or_else(|| format!("{root}/replays"));
    let tier = tier_params(&tier_name);
    println!("seed {seed} tier {tier_name} workers {nw}");
    let exe = std::env::current_exe().expect("current_exe");
    let corpus = match worker::load_corpus() {
        Ok(c) => c,
        Err(e) => {
            eprintln!("HARNESS-ERROR {e}");
            return 2;
        }
    };
    let rundir = format!("{root}/sim/target/runs/{}", std::process::id());
    let _ = std::fs::create_dir_all(&rundir);

    // ---- which interleaving engines may be used on this tree
    // The shuttle engine runs all simulated threads as coroutines on ONE OS thread, so
    // thread-local state of the library would be shared between simulated threads — a
    // difference from real threads that could raise a false alarm. The library has no
    // thread-locals today; if a tree has one, only the real-threads engine is used.
    let mut tl_files = Vec::new();
    for dir in ["/repo/prqlc/prqlc/src", "/repo/prqlc/prqlc-parser/src"] {
        scan_for(dir, "thread_local!", &mut tl_files);
    }
    let asked = std::env::var("VERIF_ENGINES").unwrap_or_default();
    if (asked == "mixed" || asked == "shuttle") && !tl_files.is_empty() {
        println!(
            "note: thread_local! found in {} — the coroutine (shuttle) engine would share it between simulated threads; using the real-threads engine only",
            tl_files.join(", ")
        );
        std::env::set_var("VERIF_ENGINES", "threads");
    }
    let engines_note = match std::env::var("VERIF_ENGINES").unwrap_or_default().as_str() {
        "mixed" => "threads 3/4, shuttle 1/4".to_string(),
        "shuttle" => "shuttle".to_string(),
        _ => "threads".to_string(),
    };

    // ---- phase H: harvest inputs that really panic on this tree
    let mut harvested: Vec<HarvestReport> = Vec::new();
    if let Err(e) = spawn_workers(&exe, "H", seed, &tier, nw, None, |l| {
        if let Ok(h) = serde_json::from_str::<HarvestReport>(l) {
            harvested.push(h);
        }
    }) {
        eprintln!("HARNESS-ERROR {e}");
        return 2;
    }
    harvested.sort_by_key(|h| h.h);
    let harvested_total = harvested.len();
    let panickers: Vec<String> = harvested.iter().take(64).map(|h| h.src.clone()).collect();
    let ppath = format!("{rundir}/panickers.json");
    std::fs::write(&ppath, serde_json::to_string(&panickers).unwrap()).expect("write panickers");
    println!(
        "phase H: {} programs examined, {} panic in the reference context, {} used as panic_real faults ({:.1}s)",
        corpus.programs.len() as u64 + tier.harvest_gen,
        harvested_total,
        panickers.len(),
        t0.elapsed().as_secs_f64()
    );

    // ---- phases A, B, C
    let mut agg = Agg::new();
    let mut bad_lines = 0u64;
    if let Err(e) = spawn_workers(&exe, "X", seed, &tier, nw, Some(&ppath), |l| {
        match serde_json::from_str::<ExecReport>(l) {
            Ok(r) => agg.add(r),
            Err(_) => bad_lines += 1,
        }
    }) {
        eprintln!("HARNESS-ERROR {e}");
        return 2;
    }
    let _ = std::fs::remove_dir_all(&rundir);
    let expected = tier.a + tier.b + tier.c;
    let wall = t0.elapsed().as_secs_f64();
    println!(
        "executions {} (A {} B {} C {}), calls {}, judged {}, unjudged {}, refs computed {}, wall {:.1}s",
        agg.evaluations,
        agg.per_stratum.get("A").copied().unwrap_or(0),
        agg.per_stratum.get("B").copied().unwrap_or(0),
        agg.per_stratum.get("C").copied().unwrap_or(0),
        agg.calls,
        agg.judged,
        agg.unjudged,
        agg.refs_computed,
        wall
    );
    if bad_lines > 0 || agg.evaluations != expected {
        eprintln!(
            "HARNESS-ERROR expected {expected} execution reports, got {} ({bad_lines} unparsable lines)",
            agg.evaluations
        );
        return 2;
    }
    if agg.degraded > 0 {
        println!(
            "WARNING {} of {} stratum-C executions could not be interleaved: the interleaved run blocked the simulator's only OS thread (a blocking primitive without a verif hook is held across a scheduling point). They were run with their callers one after another instead; concurrency was NOT explored for them.",
            agg.degraded,
            agg.per_stratum.get("C").copied().unwrap_or(0)
        );
    }
    if agg.digest_mismatches > 0 {
        println!(
            "WARNING {} of {} re-executed executions produced the same outputs but a different event order: part of the process runs outside the simulator's control (does the library start threads of its own?). Outputs are still compared; interleavings inside that part are the operating system's.",
            agg.digest_mismatches, agg.reruns
        );
    }
    let mut harness_errors = 0usize;
    if !agg.herrs.is_empty() {
        agg.herrs.sort_by(|a, b| (a.0.clone(), a.1).cmp(&(b.0.clone(), b.1)));
        harness_errors = agg.herrs.len();
        for (s, i, e, p) in agg.herrs.iter().take(5) {
            eprintln!("HARNESS-ERROR stratum {s} execution {i}: {e}");
            if let Some(p) = p {
                let path = format!("{replay_dir}/C11-harness-error-{seed}-{s}{i}.json");
                let _ = std::fs::create_dir_all(&replay_dir);
                let _ = std::fs::write(&path, serde_json::to_string_pretty(p).unwrap());
                eprintln!("  plan written to {path}");
            }
        }
        if agg.herrs.len() > 5 {
            eprintln!("HARNESS-ERROR ... and {} more", agg.herrs.len() - 5);
        }
        // a violation that replays from its file is reported all the same (below);
        // without one the run ends with exit 2
    }

    // ---- violations: cluster, minimise, replay, report
    let (known, _fixed) = load_known();
    agg.viols.sort_by(|a, b| (a.0.clone(), a.1).cmp(&(b.0.clone(), b.1)));
    let mut clusters: Vec<(String, Vec<usize>)> = Vec::new();
    for (idx, (_, _, v, _)) in agg.viols.iter().enumerate() {
        let sig = v.signature();
        match clusters.iter_mut().find(|(s, _)| *s == sig) {
            Some((_, m)) => m.push(idx),
            None => clusters.push((sig, vec![idx])),
        }
    }
    let mut reported = 0u64;
    let minimise_started = std::time::Instant::now();
    let mut known_hits: BTreeMap<String, u64> = BTreeMap::new();
    let mut violation_lines = Vec::new();
    let _ = std::fs::create_dir_all(&replay_dir);
    for (cluster_no, (sig, members)) in clusters.iter().enumerate() {
        // known finding? (exact signature listed in known-findings.txt)
        if let Some(k) = known.iter().find(|k| k.contains(&format!("sig={sig} "))) {
            *known_hits.entry(k.clone()).or_insert(0) += members.len() as u64;
            continue;
        }
        if reported >= 8 {
            println!("further cluster {sig}: {} executions (not minimised)", members.len());
            reported += 1;
            continue;
        }
        // representative: the member with the fewest calls (a long history is a poor witness
        // when a three-call execution shows the same thing), first one among equals
        let rep = *members
            .iter()
            .min_by_key(|m| {
                let p = &agg.viols[**m].3;
                p.threads.iter().map(|t| t.len()).sum::<usize>() + p.sentinel.len()
            })
            .unwrap_or(&members[0]);
        let (stratum, i, v, plan) = &agg.viols[rep];
        let raw_path = format!("{replay_dir}/C11-{seed}-{stratum}{i}-c{cluster_no}.raw.json");
        let min_path = format!("{replay_dir}/C11-{seed}-{stratum}{i}-c{cluster_no}.json");
        let rf = ReplayFile {
            property: "C11".into(),
            kind: classify_kind(plan, v),
            verif_seed: seed,
            stratum: stratum.clone(),
            index: *i,
            signature: sig.clone(),
            minimised: false,
            plan: plan.clone(),
            violation: v.clone(),
            notes: vec![format!("cluster of {} executions with this signature", members.len())],
        };
        std::fs::write(&raw_path, serde_json::to_string_pretty(&rf).unwrap()).expect("write replay");
        // a finding of the free-running fallback is not minimised: it does not replay exactly
        let st = if plan.engine == "free" {
            Err(std::io::Error::other("not minimised"))
        } else {
            // the first clusters get the full budget; once eight minutes have gone into
            // minimisation the rest get half a minute each
            let cap = if minimise_started.elapsed().as_secs() > 480 { 30 } else { 240 };
            Command::new(&exe)
                .arg("minimize")
                .arg(&raw_path)
                .arg(&min_path)
                .arg("--wall-cap")
                .arg(cap.to_string())
                .status()
        };
        let mut final_path = None;
        if matches!(st, Ok(s) if s.success()) {
            let out = Command::new(&exe).arg("replay").arg(&min_path).output();
            if matches!(&out, Ok(o) if o.status.code() == Some(1)) {
                final_path = Some(min_path.clone());
                let _ = std::fs::remove_file(&raw_path);
            }
        }
        if final_path.is_none() {
            let out = Command::new(&exe).arg("replay").arg(&raw_path).output();
            if matches!(&out, Ok(o) if o.status.code() == Some(1)) {
                final_path = Some(raw_path.clone());
            }
        }
        if final_path.is_none() {
            // Not reproducible at once. If the same plan, replayed many times, fails some of
            // the time, the code's output varies although every seam is fixed: that is a
            // violation in its own right (the same sources and options, different bytes).
            let mut rf2 = rf.clone();
            rf2.kind = "unseamed_nondeterminism".into();
            rf2.notes.push("the recorded violation did not replay at the first attempt; replay repeats the plan up to 50 times".into());
            std::fs::write(&raw_path, serde_json::to_string_pretty(&rf2).unwrap()).expect("write replay");
            let out = Command::new(&exe).arg("replay").arg(&raw_path).output();
            if matches!(&out, Ok(o) if o.status.code() == Some(1)) {
                final_path = Some(raw_path.clone());
            }
        }
        match final_path {
            Some(p) => {
                let rf2: Option<ReplayFile> = std::fs::read_to_string(&p).ok().and_then(|t| serde_json::from_str(&t).ok());
                if let Some(r) = rf2 {
                    println!(
                        "violation cluster {sig}: {} executions; first: stratum {stratum} execution {i}; kind {}; minimised={}",
                        members.len(),
                        r.kind,
                        r.minimised
                    );
                    println!("  expected [{}] {}", r.violation.expected.class, clip(&r.violation.expected.text, 300));
                    println!("  actual   [{}] {}", r.violation.actual.class, clip(&r.violation.actual.text, 300));
                }
                violation_lines.push(format!("VIOLATION property=C11 replay={p}"));
                reported += 1;
            }
            None => {
                eprintln!(
                    "HARNESS-ERROR violation {sig} (stratum {stratum} execution {i}) did not reproduce from its replay file {raw_path}"
                );
                return 2;
            }
        }
    }
    for (k, n) in &known_hits {
        println!("KNOWN-FINDING: property=C11 {k} ({n} executions)");
    }

    // ---- evidence
    let distinct = agg.ctx.len() as u64;
    let ev = serde_json::json!({
        "property_id": "C11",
        "tier": if tier_name == "thorough" { "thorough" } else { "quick" },
        "seed": seed,
        "level": "exploration",
        "wall_s": (wall * 10.0).round() / 10.0,
        "violations": violation_lines.len(),
        "coverage": {
            "evaluations": agg.evaluations,
            "distinct_nontrivial": distinct,
            "rule": "one evaluation = one simulated execution (a Plan run in a pristine forked process). Plans are a pure function of (VERIF_SEED, stratum, index): stratum A = one operation under 1+K hash bases / file enumeration orders; B = sequential call histories over 1-3 caller threads with faults and a sentinel phase; C = 2-4 concurrent callers (real OS threads under the simulator's baton scheduler; a quarter of them twins compiling the same program) with faults and a sentinel phase; one B execution in forty is a long history (the judged calls, 120-520 unjudged filler calls, the judged calls again). Non-trivial = at least two calls, or any fault fired (non-reference hash base, permuted enumeration, context switch, real or injected panic, failed call, env change, debug session, log level, clock, heap layout, fresh address space). Distinct = distinct FNV-64 of (calls incl. program texts and options, sentinel, hash base, env, schedule actually taken).",
            "samples": agg.samples,
            "executions_per_stratum": agg.per_stratum,
            "stratum_C_executions_not_interleaved": agg.degraded,
            "stratum_C_engines": engines_note,
            "stratum_C_executions_with_a_real_block_routed_around": agg.ext_block_execs,
            "stratum_C_executions_per_engine": agg.engines,
            "api_calls_executed": agg.calls,
            "calls_judged_against_reference": agg.judged,
            "calls_unjudged_reference_context_crashes": agg.unjudged,
            "reference_contexts_computed": agg.refs_computed,
            "executions_per_hour": ((agg.evaluations as f64) / wall * 3600.0).round(),
            "seeds_per_hour": "one VERIF_SEED per run; every execution has its own derived seed, so seeds per hour = executions_per_hour",
            "simulated_time": "the library has no timer or deadline (DESIGN.md §1); clock_gettime is interposed all the same: a simulated process reads epoch + readings x step, step = 1 µs in the reference and 1 ms / 1 s / 50 s per reading under the clock fault; progress is measured in scheduler steps",
            "scheduler_steps": agg.steps,
            "context_switches": agg.switches,
            "event_log_events": agg.nevents,
            "faults_fired": agg.faults,
            "executions_with_fault_kind": agg.fault_execs,
            "reach_probes_executions": agg.probes,
            "seam_event_counts": agg.counters,
            "distinct_interleavings_stratum_C": agg.scheds.len(),
            "distinct_hash_key_states": agg.canaries.len(),
            "distinct_program_texts_or_file_trees": agg.programs.len(),
            "distinct_event_log_digests": agg.digests.len(),
            "operation_kinds_executions": agg.op_kinds,
            "panicking_inputs_harvested": harvested_total,
            "determinism_reruns": agg.reruns,
            "determinism_reruns_identical": agg.reruns_same,
            "determinism_reruns_same_outputs_other_event_order": agg.digest_mismatches,
            "violation_clusters": clusters.iter().map(|(s, m)| serde_json::json!({"signature": s, "executions": m.len()})).collect::<Vec<_>>(),
            "known_findings_hit": known_hits,
            "components_real": ["prqlc", "prqlc-parser", "chumsky", "sqlparser", "sqlformat", "ariadne", "regex", "serde_json", "csv", "chrono", "std RwLock/OnceLock (uncontended, under shadow locks)", "prqlc::debug::MessageLogger (during debug sessions)", "prqlc-c (the C binding's extern \"C\" entry points and result_destroy, source included by build.rs)", "the prqlc command-line binary (src/cli: argument parsing, clio/walkdir file discovery, read_files, execute, error printing, fmt's in-place rewrite, --debug-log wiring) built from the working tree without hooks or instrumentation and run as a process of its own (operation cli)"],
            "components_stubbed": ["getrandom (PRNG; decides std RandomState keys)", "clock_gettime (simulated clock)", "global allocator (system allocator plus a scheduling hook and heap-layout perturbation)", "log global logger (harness logger wired like the CLI's: preemption points, injected panics, forwards to the real MessageLogger during debug sessions); log max level set per context", "thread scheduling (real OS threads parked and released one at a time by the simulator's seeded scheduler; optional shuttle 0.9.3 coroutine engine)", "__tsan_atomic* / __sanitizer_cov_trace_pc_guard callbacks of the instrumented library crates (scheduling point, then the real atomic operation)", "colour environment variables removed, stderr not a terminal", "for the command-line binary only: getrandom and readdir/readdir64 through an LD_PRELOAD library (sim/preload/verif_preload.c): hash seeds and directory enumeration order of that process are seeded; its address-space layout is the kernel's draw", "address-space layout: not stubbed and not seeded - a fresh execve per `address_space` execution lets the kernel draw it"],
        },
        "assumptions": [
            "reference context = same build, pristine process, one thread, hash base 0, identity file order, no fault; a deterministic-but-wrong output is invisible here",
            "interleavings are explored at the hooked synchronisation points (CURRENT_LOG, 8 lazily initialised statics), call boundaries, log sites, seeded allocations, seeded basic-block edges and atomic operations of the two library crates (incl. inlined std lock fast paths) - not inside dependencies compiled without the instrumentation",
            "getrandom interposition decides std RandomState keys (verified per execution by the canary map order in the event log)",
            "PL is compared as canonical JSON; source ids are compared through SourceTree::get_path; panic messages and debug-log contents are not compared",
        ],
    });
    if let Some(dir) = std::path::Path::new(&evidence_path).parent() {
        let _ = std::fs::create_dir_all(dir);
    }
    if let Err(e) = std::fs::write(&evidence_path, serde_json::to_string_pretty(&ev).unwrap()) {
        eprintln!("HARNESS-ERROR cannot write evidence: {e}");
        return 2;
    }
    println!(
        "distinct non-trivial contexts {distinct}, distinct interleavings {}, fault executions {:?}",
        agg.scheds.len(),
        agg.fault_execs
    );
    println!("reach probes {:?}", agg.probes);
    println!(
        "determinism re-executions {} identical {}",
        agg.reruns, agg.reruns_same
    );
    if violation_lines.is_empty() {
        if harness_errors > 0 {
            eprintln!("HARNESS-ERROR {harness_errors} executions could not be judged; nothing is concluded");
            return 2;
        }
        println!("C11 held on everything explored");
        0
    } else {
        for l in &violation_lines {
            println!("{l}");
        }
        1
    }
}

fn cmd_worker(args: &[String]) -> i32 {
    let phase = arg_val(args, "--phase").unwrap_or_default();
    let seed: u64 = arg_val(args, "--seed").and_then(|s| s.parse().ok()).unwrap_or(DEFAULT_SEED);
    let tier: Tier = serde_json::from_str(&arg_val(args, "--tier-json").unwrap_or_default()).expect("tier json");
    let w: u64 = arg_val(args, "--w").and_then(|s| s.parse().ok()).unwrap_or(0);
    let nw: u64 = arg_val(args, "--nw").and_then(|s| s.parse().ok()).unwrap_or(1);
    let corpus = match worker::load_corpus() {
        Ok(c) => c,
        Err(e) => {
            eprintln!("worker: {e}");
            return 2;
        }
    };
    let gen = gen::Gen {
        corpus: &corpus,
        verif_seed: seed,
        cli_available: cli_available(),
    };
    seams::install();
    if phase == "H" {
        worker::harvest(&gen, &tier, w, nw);
        return 0;
    }
    let panickers: Vec<String> = arg_val(args, "--panickers")
        .and_then(|p| std::fs::read_to_string(p).ok())
        .and_then(|t| serde_json::from_str(&t).ok())
        .unwrap_or_default();
    let cfg = WorkerCfg {
        verif_seed: seed,
        tier,
        w,
        nw,
        panickers,
        samples_per_stratum: 2,
    };
    worker::work(&gen, &cfg);
    0
}

/// Determinism self-check: every plan twice, in different worker layouts.
fn cmd_selfcheck(args: &[String]) -> i32 {
    let n: u64 = arg_val(args, "--n").and_then(|s| s.parse().ok()).unwrap_or(300);
    let seeds: u64 = arg_val(args, "--seeds").and_then(|s| s.parse().ok()).unwrap_or(8);
    let exe = std::env::current_exe().unwrap();
    let tier = Tier {
        harvest_gen: 0,
        a: n,
        a_k: 2,
        b: n,
        c: n,
    };
    let mut total = 0u64;
    let mut mismatches = 0u64;
    for s in 0..seeds {
        let seed = DEFAULT_SEED + 1000 + s;
        let mut runs: Vec<HashMap<(String, u64), (u64, String)>> = Vec::new();
        for nw in [1u64, 4, 16] {
            // with n plans per stratum at one worker this is slow; scale n down for nw = 1
            let mut m = HashMap::new();
            let r = spawn_workers(&exe, "X", seed, &tier, nw, None, |l| {
                if let Ok(r) = serde_json::from_str::<ExecReport>(l) {
                    m.insert((r.stratum.clone(), r.i), (r.digest, format!("{:?}", r.herr)));
                }
            });
            if let Err(e) = r {
                eprintln!("HARNESS-ERROR {e}");
                return 2;
            }
            runs.push(m);
        }
        for (k, v) in &runs[0] {
            total += 1;
            for other in &runs[1..] {
                if other.get(k) != Some(v) {
                    mismatches += 1;
                    eprintln!("MISMATCH seed {seed} {:?}: {:?} vs {:?}", k, v, other.get(k));
                }
            }
        }
        println!("seed {seed}: {} executions compared across worker counts 1/4/16", runs[0].len());
    }
    println!("selfcheck determinism: {total} executions x 3 layouts, {mismatches} mismatches");
    if mismatches == 0 {
        0
    } else {
        2
    }
}

/// Triage helper: one operation under several hash bases, each in a pristine child.
fn cmd_probe(args: &[String]) -> i32 {
    seams::install();
    let kind = args.get(2).cloned().unwrap_or_default();
    let src = args.get(3).cloned().unwrap_or_default();
    let src = if let Some(f) = src.strip_prefix('@') {
        std::fs::read_to_string(f).expect("read src")
    } else {
        src
    };
    let n: u64 = arg_val(args, "--bases").and_then(|s| s.parse().ok()).unwrap_or(8);
    let target = arg_val(args, "--target").unwrap_or_else(|| "sql.any".into());
    let op = match kind.as_str() {
        "fmt" => ops::Op::Fmt { src },
        "rq" => ops::Op::Rq { src },
        "staged" => ops::Op::Staged {
            src,
            opts: ops::Opts::plain(&target),
        },
        _ => ops::Op::Compile {
            src,
            opts: ops::Opts::plain(&target),
        },
    };
    let mut seen: Vec<(String, Vec<u64>)> = Vec::new();
    for b in 0..n {
        let mut p = check::ref_plan(&op, &None);
        if let Some(n) = arg_val(args, "--perturb").and_then(|s| s.parse::<u32>().ok()) {
            // same hash base, varying heap layout instead
            p.heap_perturb = n;
            p.exec_seed = b;
            p.threads[0][0].hash_base = Some(0);
        } else {
            p.threads[0][0].hash_base = Some(b);
        }
        match forkrun::run_forked(&p, 60_000) {
            Ok(o) => {
                let obs = &o.calls[0][0].obs;
                let t = format!("[{}] {}", obs.class, obs.text);
                match seen.iter_mut().find(|(x, _)| *x == t) {
                    Some((_, v)) => v.push(b),
                    None => seen.push((t, vec![b])),
                }
            }
            Err(e) => println!("base {b}: child failed {e:?}"),
        }
    }
    for (t, bases) in &seen {
        println!("bases {bases:?}:\n{t}\n");
    }
    println!("{} distinct outputs over {n} hash bases", seen.len());
    0
}

fn cli_available() -> bool {
    let (bin, pre) = ops::cli_paths();
    bin.exists() && pre.exists()
}

fn main() {
    let args: Vec<String> = std::env::args().collect();
    // scratch directories of operation `cli` live under one directory per driver process,
    // which that process removes when it is done
    let owns_scratch = std::env::var_os("VERIF_CLI_SCRATCH").is_none();
    if owns_scratch {
        let mut base = format!("{}/{}", ops::CLI_SCRATCH, std::process::id());
        if std::fs::create_dir_all(&base).is_err() {
            // no usable /dev/shm: any other scratch place will do
            base = format!("{}/prql-sim-cli/{}", std::env::temp_dir().display(), std::process::id());
        }
        std::env::set_var("VERIF_CLI_SCRATCH", base);
    }
    let code = match args.get(1).map(|s| s.as_str()) {
        Some("run") => cmd_run(&args),
        Some("worker") => cmd_worker(&args),
        Some("replay") => match args.get(2) {
            Some(p) => {
                seams::install();
                cmd_replay(p)
            }
            None => 2,
        },
        Some("minimize") => match (args.get(2), args.get(3)) {
            (Some(a), Some(b)) => {
                seams::install();
                let budget = arg_val(&args, "--budget").and_then(|s| s.parse().ok()).unwrap_or(600);
                let cap = arg_val(&args, "--wall-cap").and_then(|s| s.parse().ok());
                cmd_minimize(a, b, budget, cap)
            }
            _ => 2,
        },
        // the exec'd half of an execution in a fresh address space (forkrun::exec_fresh)
        Some("child") => {
            seams::install();
            let rfd: i32 = args.get(2).and_then(|s| s.parse().ok()).unwrap_or(-1);
            let wfd: i32 = args.get(3).and_then(|s| s.parse().ok()).unwrap_or(-1);
            forkrun::child_main(rfd, wfd)
        }
        Some("selfcheck") => cmd_selfcheck(&args),
        Some("probe") => cmd_probe(&args),
        // development aid: print the plans of a stratum as JSON lines (no execution)
        Some("plans") => {
            let seed: u64 = arg_val(&args, "--seed").and_then(|s| s.parse().ok()).unwrap_or(DEFAULT_SEED);
            let n: u64 = arg_val(&args, "--n").and_then(|s| s.parse().ok()).unwrap_or(3000);
            let stratum = arg_val(&args, "--stratum").unwrap_or_else(|| "B".into());
            let corpus = worker::load_corpus().expect("corpus");
            let gen = gen::Gen { corpus: &corpus, verif_seed: seed, cli_available: cli_available() };
            for i in 0..n {
                let p = match stratum.as_str() {
                    "A" => gen.plan_a(i, 4),
                    "C" => gen.plan_c(i, &[]),
                    _ => gen.plan_b(i, &[]),
                };
                println!("{}", serde_json::to_string(&p).unwrap());
            }
            0
        }
        Some("runplan") => {
            seams::install();
            let p: Plan = serde_json::from_str(&std::fs::read_to_string(&args[2]).expect("read plan")).expect("parse plan");
            let n: usize = args.get(3).and_then(|s| s.parse().ok()).unwrap_or(1);
            for k in 0..n {
                let t = std::time::Instant::now();
                match forkrun::run_forked(&p, 15_000) {
                    Ok(o) => {
                        println!("run {k}: ok digest {:016x} steps {} ext_blocks {} noreturn {:?} herr {:?} ({:?})", o.digest, o.steps, o.ext_blocks, o.noreturn, o.harness_error, t.elapsed());
                        if std::env::var_os("VERIF_SHOW_OBS").is_some() {
                            for (ti, th) in o.calls.iter().enumerate() {
                                for (ci, c) in th.iter().enumerate() {
                                    println!("   t{ti} c{ci} [{}] {}", c.obs.class, clip(&c.obs.text, 160));
                                }
                            }
                            println!("   counters {:?}", o.counters);
                        }
                    }
                    Err(e) => println!("run {k}: FAILED {e:?} ({:?})", t.elapsed()),
                }
            }
            0
        }
        _ => {
            eprintln!("usage: sim run [--tier quick|thorough] [--seed N] | replay <file> | minimize <in> <out> | selfcheck");
            2
        }
    };
    if owns_scratch {
        if let Some(d) = std::env::var_os("VERIF_CLI_SCRATCH") {
            let _ = std::fs::remove_dir_all(d);
        }
    }
    std::process::exit(code);
}
