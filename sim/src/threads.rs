//! The simulator's second interleaving engine: simulated callers are *real OS threads*,
//! parked and released one at a time. Exactly one thread holds the baton and runs; at
//! every scheduling point (hook events of the library's global lock and lazily initialised
//! statics, log sites chosen by the PRNG, call boundaries) the baton holder asks the seeded
//! scheduler who runs next and hands the baton over. Which thread runs is never left to
//! the OS, so an execution is a pure function of the plan; but thread-locals, the
//! per-thread panic count and lock poisoning are the real thing, which coroutines on one
//! OS thread (the shuttle engine) cannot give.
//!
//! The library's `CURRENT_LOG` RwLock and its `OnceLock` statics are modelled here as
//! shadow state (who holds what, who waits for what), fed by the hook events that precede
//! the real operations. A simulated thread that has to wait is marked blocked and the
//! baton goes elsewhere; if nobody can run while somebody is unfinished, that is a
//! deadlock, reported with the wait-for relation.

use std::cell::Cell;
use std::sync::atomic::{AtomicBool, AtomicUsize, Ordering};
use std::sync::{Condvar, Mutex};

use crate::plan::Sched;
use crate::rng::Rng;
use crate::seams::state;

#[derive(Clone, Debug, PartialEq)]
enum TState {
    Runnable,
    /// waiting for a shadow resource
    Blocked(&'static str),
    /// was found asleep in the kernel (a real lock, a channel) while it held the baton; the
    /// baton went elsewhere; becomes Runnable again when the thread reaches its next seam
    ExtBlocked,
    Finished,
}

#[derive(Default)]
struct RwState {
    writer: Option<usize>,
    readers: Vec<usize>,
}

struct Engine {
    active: bool,
    /// thread allowed to run; 0 = the coordinating thread
    turn: usize,
    states: Vec<TState>,
    rw: Vec<(&'static str, RwState)>,
    once: Vec<(&'static str, Option<usize>)>,
    rng: Rng,
    /// a stream of its own for everything that is not the choice of the next thread
    /// (countdowns, budgets, coins): a pinned schedule replaces the choices only, so these
    /// draws must not share a stream with them
    krng: Rng,
    switch_ppm: u32,
    explicit: Vec<(u32, u32)>,
    explicit_mode: bool,
    pos: (usize, u32),
    steps: u64,
    switches: u64,
    rle: Vec<(u32, u32)>,
    max_steps: u64,
    dead: Option<String>,
    alloc_mean: u64,
    alloc_yields: u64,
    block_mean: u64,
    atomic_mean: u64,
    /// conflict-directed holds: mean number of *interesting* atomic operations (see
    /// `atomic_point`) between two self-parkings of a running thread (0 = off)
    hold_mean: u64,
    /// threads parked *before* an atomic operation on the address in `HELD[t]`; they are not
    /// runnable until another thread touches that address, the budget runs out, or nobody
    /// else can run
    held: Vec<bool>,
    holds_started: u64,
    hold_conflicts: u64,
    /// a caller thread that just finished and waits to be joined by the coordinator
    exiting: Option<usize>,
    /// kernel thread ids of the simulated threads (0 = unknown yet)
    os_tids: Vec<i32>,
    /// how many times a baton holder was found blocked for real
    ext_blocks: u64,
}

static ENGINE: Mutex<Option<Engine>> = Mutex::new(None);
static CV: Condvar = Condvar::new();
/// mirror of `Engine::turn` for cheap checks outside the engine lock
static TURN: AtomicUsize = AtomicUsize::new(0);
/// set once a real block was seen in this execution: from then on every allocation of a
/// call checks whether its thread still holds the baton
static ARMED_ALL: AtomicBool = AtomicBool::new(false);

thread_local! {
    /// simulated-thread id of this OS thread (0 = coordinator / not simulated)
    pub static TID: Cell<usize> = const { Cell::new(0) };
    /// allocation-point preemption: open only while library code of a call runs on this thread
    /// 0 closed (harness code or no call), 1 armed (library code of a call: baton checks
    /// only), 2 open (also allocation-point preemption)
    static GATE: Cell<u8> = const { Cell::new(0) };
    static COUNTDOWN: Cell<u64> = const { Cell::new(u64::MAX) };
    /// basic-block preemption: blocks of library code left until the next scheduling point
    static BLOCK_COUNTDOWN: Cell<u64> = const { Cell::new(u64::MAX) };
    /// atomic-operation preemption: atomic operations of library code left until the next
    /// scheduling point
    static ATOMIC_COUNTDOWN: Cell<u64> = const { Cell::new(u64::MAX) };
    /// conflict-directed holds: interesting atomic operations left until this thread parks
    /// itself before one
    static HOLD_COUNTDOWN: Cell<u64> = const { Cell::new(u64::MAX) };
    /// atomic operations of this thread since its last scheduling point (spin-loop guard)
    static SINCE_SCHED: Cell<u64> = const { Cell::new(0) };
}

const MAXT: usize = 16;
/// address of the atomic a held simulated thread is parked before (0 = not held)
static HELD: [AtomicUsize; MAXT] = [const { AtomicUsize::new(0) }; MAXT];
static HOLDS_ACTIVE: AtomicUsize = AtomicUsize::new(0);
/// interesting atomic operations the running threads may still perform before all holds end
static HOLD_BUDGET: std::sync::atomic::AtomicU64 = std::sync::atomic::AtomicU64::new(0);
/// Exact table (open addressing) over the addresses of atomics touched by library code in
/// this process: was there an instrumented write, and which simulated thread touched it last.
/// Exact keys, so that what it answers does not depend on the numeric value of an address
/// (address-space layout differs between the processes that run and re-run an execution);
/// static addresses are keyed relative to the image.
const TAB: usize = 8192;
static TAB_KEY: [AtomicUsize; TAB] = [const { AtomicUsize::new(0) }; TAB];
/// bit 7: written before; low bits: last simulated thread
static TAB_META: [std::sync::atomic::AtomicU8; TAB] = [const { std::sync::atomic::AtomicU8::new(0) }; TAB];

/// Returns (written before, last thread) and records this access.
#[inline]
fn touch(key: usize, me: usize, write: bool) -> (bool, usize) {
    let mut i = addr_hash(key) & (TAB - 1);
    for _ in 0..128 {
        let k = TAB_KEY[i].load(Ordering::Relaxed);
        if k == key || (k == 0 && TAB_KEY[i].compare_exchange(0, key, Ordering::Relaxed, Ordering::Relaxed).is_ok()) {
            let old = TAB_META[i].load(Ordering::Relaxed);
            let new = (old & 0x80) | if write { 0x80 } else { 0 } | (me as u8 & 0x7f);
            TAB_META[i].store(new, Ordering::Relaxed);
            return (old & 0x80 != 0, (old & 0x7f) as usize);
        }
        i = (i + 1) & (TAB - 1);
    }
    // table full around here: treat as never seen
    (false, 0)
}

/// address range of the executable's writable image (.data/.bss): statics live there
static STATIC_LO: AtomicUsize = AtomicUsize::new(0);
/// Focus of the conflict-directed holds in this execution: a thread parks itself only before
/// atomics whose (image-relative) address falls into a seeded 1/FOCUS_MOD of all static
/// addresses, so that the holds of one execution concentrate on a few variables instead of
/// being spread over every lock and lazily initialised static a call touches.
static FOCUS_MOD: AtomicUsize = AtomicUsize::new(1);
static FOCUS_SALT: AtomicUsize = AtomicUsize::new(0);
/// atomic operations a caller may perform without a scheduling point before it must let the
/// others run (a spinning caller; how long the OS may starve the thread it is waiting for)
static SPIN_GUARD: AtomicUsize = AtomicUsize::new(20_000);
static STATIC_HI: AtomicUsize = AtomicUsize::new(0);

fn init_static_range() {
    if STATIC_HI.load(Ordering::Relaxed) != 0 {
        return;
    }
    let exe = std::fs::read_link("/proc/self/exe").ok().map(|p| p.to_string_lossy().into_owned());
    let maps = std::fs::read_to_string("/proc/self/maps").unwrap_or_default();
    let (mut lo, mut hi) = (usize::MAX, 0usize);
    let mut prev_end = 0usize;
    for line in maps.lines() {
        let mut it = line.split_whitespace();
        let range = it.next().unwrap_or("");
        let perms = it.next().unwrap_or("");
        let path = it.nth(3).unwrap_or("");
        let Some((a, b)) = range.split_once('-') else { continue };
        let (Ok(a), Ok(b)) = (usize::from_str_radix(a, 16), usize::from_str_radix(b, 16)) else { continue };
        let ours = Some(path) == exe.as_deref();
        // the anonymous mapping that directly follows the image is its .bss
        let bss = path.is_empty() && a == prev_end && hi == prev_end && hi != 0;
        if perms.starts_with("rw") && (ours || bss) {
            lo = lo.min(a);
            hi = hi.max(b);
        }
        if ours || bss {
            prev_end = b;
        }
    }
    if hi == 0 {
        lo = 0;
        hi = 1; // unknown: nothing counts as static
    }
    STATIC_LO.store(lo, Ordering::Relaxed);
    STATIC_HI.store(hi, Ordering::Relaxed);
}

#[inline]
fn addr_hash(a: usize) -> usize {
    ((a as u64).wrapping_mul(0x9E37_79B9_7F4A_7C15) >> 40) as usize
}

/// atomic operations executed by library code of calls on simulated threads (reach probe)
pub static ATOMIC_OPS: std::sync::atomic::AtomicU64 = std::sync::atomic::AtomicU64::new(0);

/// Restores the allocation gate of this thread when dropped.
pub struct GateGuard(u8);

impl Drop for GateGuard {
    fn drop(&mut self) {
        let _ = GATE.try_with(|g| g.set(self.0));
    }
}

/// Harness code entered from library code (hook callback, logger, panic hook) closes the
/// gate: it takes harness locks, and a scheduling point under one would block the others.
pub fn gate_close() -> GateGuard {
    GateGuard(GATE.try_with(|g| g.replace(0)).unwrap_or(0))
}

/// Open the gate for the library code of one call (threads engine only, and only when the
/// plan asks for allocation-point preemption).
pub fn gate_open_for_call() -> GateGuard {
    let open = {
        let mut g = lock();
        match g.as_mut() {
            Some(e) if e.active && tid() != 0 && (e.alloc_mean > 0 || e.block_mean > 0 || e.atomic_mean > 0 || e.hold_mean > 0) => {
                let next_a = if e.alloc_mean > 0 {
                    1 + e.krng.below(2 * e.alloc_mean as usize) as u64
                } else {
                    u64::MAX
                };
                let next_b = if e.block_mean > 0 {
                    1 + e.krng.below(2 * e.block_mean as usize) as u64
                } else {
                    u64::MAX
                };
                let next_c = if e.atomic_mean > 0 {
                    1 + e.krng.below(2 * e.atomic_mean as usize) as u64
                } else {
                    u64::MAX
                };
                COUNTDOWN.with(|c| c.set(next_a));
                BLOCK_COUNTDOWN.with(|c| c.set(next_b));
                let next_h = if e.hold_mean > 0 {
                    1 + e.krng.below(2 * e.hold_mean as usize) as u64
                } else {
                    u64::MAX
                };
                ATOMIC_COUNTDOWN.with(|c| c.set(next_c));
                HOLD_COUNTDOWN.with(|c| c.set(next_h));
                true
            }
            _ => false,
        }
    };
    let armed = tid() != 0 && active();
    GateGuard(GATE.with(|g| g.replace(if open { 2 } else if armed { 1 } else { 0 })))
}

/// Called by the global allocator before every allocation. With the gate open, every
/// n-th allocation (n drawn from the plan's PRNG) is a scheduling point: the running thread
/// can be preempted almost anywhere in library code, not only at lock events and log sites.
#[inline]
pub fn alloc_point() {
    let gate = GATE.try_with(|g| g.get()).unwrap_or(0);
    if gate == 0 {
        return;
    }
    // a thread that was found blocked for real and has woken up runs without the baton:
    // stop it at its first allocation
    if ARMED_ALL.load(Ordering::Relaxed) {
        let me = tid();
        if me != 0 && TURN.load(Ordering::SeqCst) != me {
            let _closed = gate_close();
            rejoin(me);
        }
    }
    if gate < 2 {
        return;
    }
    let fire = COUNTDOWN
        .try_with(|c| {
            let v = c.get();
            if v == u64::MAX {
                return false;
            }
            if v > 1 {
                c.set(v - 1);
                false
            } else {
                true
            }
        })
        .unwrap_or(false);
    if fire {
        let _closed = gate_close();
        alloc_sched_point();
    }
}

/// A thread that lost the baton while it was asleep in the kernel comes back.
fn rejoin(me: usize) {
    drop(enter(me));
}

/// Called (through `__sanitizer_cov_trace_pc_guard`) at every basic-block edge of the two
/// library crates, which are compiled with SanitizerCoverage instrumentation. With the gate
/// open and the plan asking for it, every n-th block (n from the plan's PRNG) is a
/// scheduling point: a running call can be preempted between any two basic blocks of
/// library code — also where there is no allocation, no lock event and no log record.
#[inline]
pub fn block_point() {
    let gate = GATE.try_with(|g| g.get()).unwrap_or(0);
    if gate < 2 {
        return;
    }
    let fire = BLOCK_COUNTDOWN
        .try_with(|c| {
            let v = c.get();
            if v == u64::MAX {
                return false;
            }
            if v > 1 {
                c.set(v - 1);
                false
            } else {
                true
            }
        })
        .unwrap_or(false);
    if fire {
        let _closed = gate_close();
        block_sched_point();
    }
}

/// Called (through the `__tsan_atomic*` family, atomics.rs) before every atomic operation of
/// the two library crates — which includes the inlined fast paths of std's locks, `OnceLock`
/// and `Arc`. With the gate open and the plan asking for it, every n-th atomic operation of a
/// running call is a scheduling point: two adjacent atomic accesses can be separated, and a
/// thread can be parked while it holds a lock that has no hook (so that another caller's
/// `try_lock` fails, or its `lock` blocks for real and is routed around).
#[inline]
pub fn atomic_point(addr: usize, write: bool) {
    let gate = GATE.try_with(|g| g.get()).unwrap_or(0);
    if gate == 0 {
        return;
    }
    ATOMIC_OPS.fetch_add(1, Ordering::Relaxed);
    // a thread that lost the baton while asleep in the kernel stops here as well
    if ARMED_ALL.load(Ordering::Relaxed) {
        let me = tid();
        if me != 0 && TURN.load(Ordering::SeqCst) != me {
            let _closed = gate_close();
            rejoin(me);
        }
    }
    if gate < 2 {
        return;
    }
    let me = tid();
    // --- is this operation one through which two callers can communicate?
    let lo = STATIC_LO.load(Ordering::Relaxed);
    let is_static = addr >= lo && addr < STATIC_HI.load(Ordering::Relaxed);
    let (written_before, last) = if addr == 0 {
        (false, 0)
    } else {
        touch(if is_static { addr - lo + 1 } else { addr }, me, write)
    };
    let shared = is_static || (last != 0 && last != me);
    let in_focus = !is_static || {
        let m = FOCUS_MOD.load(Ordering::Relaxed);
        m <= 1 || addr_hash((addr - lo + 1) ^ FOCUS_SALT.load(Ordering::Relaxed)) % m == 0
    };
    let interesting = addr != 0 && shared && (write || written_before);
    // --- a spinning thread must let the others run eventually
    let spun = SINCE_SCHED.try_with(|c| {
        let v = c.get() + 1;
        c.set(v);
        v
    }).unwrap_or(0);
    if spun >= SPIN_GUARD.load(Ordering::Relaxed) as u64 {
        let _closed = gate_close();
        SINCE_SCHED.with(|c| c.set(0));
        forced_switch(me);
    }
    // --- conflict with a held thread, or the holds' budget
    if addr != 0 && HOLDS_ACTIVE.load(Ordering::Relaxed) > 0 {
        let mut conflict = 0usize;
        for (t, h) in HELD.iter().enumerate().skip(1) {
            if t != me && h.load(Ordering::Relaxed) == addr {
                conflict = t;
                break;
            }
        }
        if conflict != 0 {
            let _closed = gate_close();
            hold_conflict(me, conflict, addr);
        } else if interesting && HOLD_BUDGET.fetch_sub(1, Ordering::Relaxed) <= 1 {
            let _closed = gate_close();
            release_holds_and_yield(me);
        }
    }
    // --- park this thread right before the operation and let the others run up to it
    if interesting && in_focus {
        let fire = HOLD_COUNTDOWN
            .try_with(|c| {
                let v = c.get();
                if v == u64::MAX {
                    return false;
                }
                if v > 1 {
                    c.set(v - 1);
                    false
                } else {
                    true
                }
            })
            .unwrap_or(false);
        if fire {
            let _closed = gate_close();
            hold_self(me, addr);
        }
    }
    let fire = ATOMIC_COUNTDOWN
        .try_with(|c| {
            let v = c.get();
            if v == u64::MAX {
                return false;
            }
            if v > 1 {
                c.set(v - 1);
                false
            } else {
                true
            }
        })
        .unwrap_or(false);
    if fire {
        let _closed = gate_close();
        atomic_sched_point();
    }
}

/// The running thread parks itself before an atomic operation on `addr`; the others run
/// until one of them is about to touch the same address (a conflict: a coin decides who goes
/// first), until they have done a budget of interesting operations, or until none can run.
fn hold_self(me: usize, addr: usize) {
    if me == 0 || me >= MAXT {
        return;
    }
    let mut g = enter(me);
    let Some(e) = g.as_mut() else { return };
    if !e.active {
        return;
    }
    let m = e.hold_mean.max(1);
    let next = 1 + e.krng.below(2 * m as usize) as u64;
    HOLD_COUNTDOWN.with(|c| c.set(next));
    // somebody else must be able to run
    let others = e
        .states
        .iter()
        .enumerate()
        .any(|(t, s)| t != me && *s == TState::Runnable && !e.held[t]);
    if !others {
        return;
    }
    let bm = *e.krng.pick(&[3usize, 24, 200]);
    let budget = 1 + e.krng.below(2 * bm) as u64;
    e.held[me] = true;
    e.holds_started += 1;
    HELD[me].store(addr, Ordering::SeqCst);
    HOLDS_ACTIVE.fetch_add(1, Ordering::SeqCst);
    HOLD_BUDGET.store(budget, Ordering::SeqCst);
    {
        let mut st = state();
        st.counters.atomic_holds += 1;
        st.ev(&format!("t{me} hold"));
    }
    match e.decide(None) {
        Some(next) if next != me => {
            SINCE_SCHED.with(|c| c.set(0));
            hand_over(me, g, next)
        }
        _ => {
            e.release_hold(me);
        }
    }
}

/// The running thread `me` is about to touch the address thread `t` is parked before.
fn hold_conflict(me: usize, t: usize, addr: usize) {
    let mut g = enter(me);
    let Some(e) = g.as_mut() else { return };
    if !e.active || !e.held.get(t).copied().unwrap_or(false) {
        return;
    }
    e.hold_conflicts += 1;
    {
        let mut st = state();
        st.counters.atomic_conflicts += 1;
        st.ev(&format!("t{me} conflict t{t}"));
    }
    if e.krng.below(2) == 0 {
        // the parked thread goes first; this one waits before its operation in turn
        e.release_hold(t);
        if me < MAXT {
            e.held[me] = true;
            HELD[me].store(addr, Ordering::SeqCst);
            HOLDS_ACTIVE.fetch_add(1, Ordering::SeqCst);
            let bm = *e.krng.pick(&[2usize, 6, 24]);
            let budget = 1 + e.krng.below(2 * bm) as u64;
            HOLD_BUDGET.store(budget, Ordering::SeqCst);
        }
        e.forced(t);
        SINCE_SCHED.with(|c| c.set(0));
        hand_over(me, g, t);
    }
    // else: this thread goes first, the other stays parked
}

fn release_holds_and_yield(me: usize) {
    {
        let mut g = enter(me);
        let Some(e) = g.as_mut() else { return };
        if !e.active {
            return;
        }
        e.release_all_holds();
    }
    sched_point();
}

/// A thread that has performed very many atomic operations without a scheduling point is
/// probably spinning on something another thread has to do: hand the baton on.
fn forced_switch(me: usize) {
    let mut g = enter(me);
    let Some(e) = g.as_mut() else { return };
    if !e.active {
        return;
    }
    let others: Vec<usize> = e.runnable().into_iter().filter(|t| *t != me).collect();
    if others.is_empty() {
        e.release_all_holds();
        return;
    }
    let next = if e.explicit_mode {
        match e.wanted() {
            Some(w) if others.contains(&w) => w,
            _ => others[0],
        }
    } else {
        others[e.rng.below(others.len())]
    };
    e.record_forced(next);
    hand_over(me, g, next);
}

fn atomic_sched_point() {
    let me = tid();
    if me == 0 {
        return;
    }
    {
        let mut g = lock();
        let Some(e) = g.as_mut() else { return };
        if !e.active {
            return;
        }
        let m = e.atomic_mean.max(1);
        let next = 1 + e.krng.below(2 * m as usize) as u64;
        ATOMIC_COUNTDOWN.with(|c| c.set(next));
    }
    {
        let mut st = state();
        st.counters.atomic_yields += 1;
        st.ev(&format!("t{me} atomic-yield"));
    }
    sched_point();
}

fn block_sched_point() {
    let me = tid();
    if me == 0 {
        return;
    }
    {
        let mut g = lock();
        let Some(e) = g.as_mut() else { return };
        if !e.active {
            return;
        }
        let m = e.block_mean.max(1);
        let next = 1 + e.krng.below(2 * m as usize) as u64;
        BLOCK_COUNTDOWN.with(|c| c.set(next));
    }
    {
        let mut st = state();
        st.counters.block_yields += 1;
        st.ev(&format!("t{me} block-yield"));
    }
    sched_point();
}

fn alloc_sched_point() {
    let me = tid();
    if me == 0 {
        return;
    }
    {
        let mut g = lock();
        let Some(e) = g.as_mut() else { return };
        if !e.active {
            return;
        }
        let m = e.alloc_mean.max(1);
        let next = 1 + e.krng.below(2 * m as usize) as u64;
        COUNTDOWN.with(|c| c.set(next));
        e.alloc_yields += 1;
    }
    {
        let mut st = state();
        st.counters.alloc_yields += 1;
        st.ev(&format!("t{me} alloc-yield"));
    }
    sched_point();
}

pub fn set_tid(t: usize) {
    TID.with(|c| c.set(t));
}

pub fn tid() -> usize {
    TID.with(|c| c.get())
}

fn lock() -> std::sync::MutexGuard<'static, Option<Engine>> {
    match ENGINE.lock() {
        Ok(g) => g,
        Err(p) => p.into_inner(),
    }
}

pub fn active() -> bool {
    lock().as_ref().is_some_and(|e| e.active)
}

pub struct Stats {
    pub steps: u64,
    pub switches: u64,
    pub rle: Vec<(u32, u32)>,
    pub dead: Option<String>,
    pub ext_blocks: u64,
}

pub fn start(sched: &Sched, nthreads: usize, alloc_mean: u64, block_mean: u64, atomic_mean: u64, hold_mean: u64, focus: u64) {
    init_static_range();
    FOCUS_MOD.store((focus & 0xffff).max(1) as usize, Ordering::Relaxed);
    SPIN_GUARD.store(if focus >> 16 == 0 { 20_000 } else { (focus >> 16) as usize }, Ordering::Relaxed);
    FOCUS_SALT.store((sched.seed >> 7) as usize, Ordering::Relaxed);
    let explicit = sched.explicit.clone().unwrap_or_default();
    let explicit_mode = !explicit.is_empty() || sched.switch_ppm == 0;
    *lock() = Some(Engine {
        active: true,
        turn: 0,
        states: vec![TState::Runnable; nthreads + 1],
        rw: Vec::new(),
        once: Vec::new(),
        rng: Rng::new(sched.seed),
        krng: Rng::new(sched.seed ^ 0x6b6e_6f62_7321),
        switch_ppm: sched.switch_ppm,
        explicit,
        explicit_mode,
        pos: (0, 0),
        steps: 0,
        switches: 0,
        rle: Vec::new(),
        max_steps: 3_000_000,
        dead: None,
        alloc_mean,
        alloc_yields: 0,
        block_mean,
        atomic_mean,
        hold_mean,
        held: vec![false; nthreads + 1],
        holds_started: 0,
        hold_conflicts: 0,
        exiting: None,
        os_tids: vec![0; nthreads + 1],
        ext_blocks: 0,
    });
    TURN.store(0, Ordering::SeqCst);
    ARMED_ALL.store(false, Ordering::SeqCst);
    // the coordinator is not a simulated caller
    if let Some(e) = lock().as_mut() {
        e.states[0] = TState::Finished;
    }
}

pub fn stop() -> Stats {
    let mut g = lock();
    let e = g.as_mut().expect("engine");
    e.active = false;
    Stats {
        steps: e.steps,
        switches: e.switches,
        rle: e.rle.clone(),
        dead: e.dead.clone(),
        ext_blocks: e.ext_blocks,
    }
}

impl Engine {
    fn set_turn(&mut self, t: usize) {
        self.turn = t;
        TURN.store(t, Ordering::SeqCst);
    }

    fn wanted(&mut self) -> Option<usize> {
        while self.pos.0 < self.explicit.len() {
            let (t, n) = self.explicit[self.pos.0];
            if self.pos.1 < n {
                self.pos.1 += 1;
                return Some(t as usize);
            }
            self.pos = (self.pos.0 + 1, 0);
        }
        None
    }

    fn runnable(&self) -> Vec<usize> {
        self.states
            .iter()
            .enumerate()
            .filter(|(i, s)| **s == TState::Runnable && !self.held[*i])
            .map(|(i, _)| i)
            .collect()
    }

    fn release_hold(&mut self, t: usize) {
        if self.held.get(t).copied().unwrap_or(false) {
            self.held[t] = false;
            if t < MAXT {
                HELD[t].store(0, Ordering::SeqCst);
            }
            HOLDS_ACTIVE.fetch_sub(1, Ordering::SeqCst);
        }
    }

    fn release_all_holds(&mut self) {
        for t in 0..self.held.len() {
            self.release_hold(t);
        }
    }

    /// A scheduling decision that is not a choice (conflict hand-over, spin guard): counted
    /// and recorded like one, so that a pinned schedule stays aligned.
    fn forced(&mut self, choice: usize) {
        if self.explicit_mode {
            let _ = self.wanted();
        }
        self.record_forced(choice);
    }

    fn record_forced(&mut self, choice: usize) {
        self.steps += 1;
        self.switches += 1;
        match self.rle.last_mut() {
            Some((t, n)) if *t as usize == choice => *n += 1,
            _ => self.rle.push((choice as u32, 1)),
        }
    }

    /// One scheduling decision. `cur` = the thread asking, if it can continue itself.
    fn decide(&mut self, cur: Option<usize>) -> Option<usize> {
        let mut run = self.runnable();
        if run.is_empty() && self.held.iter().any(|h| *h) {
            // only parked threads are left: their holds end
            self.release_all_holds();
            run = self.runnable();
        }
        if run.is_empty() {
            return None;
        }
        self.steps += 1;
        let cur_runnable = cur.is_some_and(|c| run.contains(&c));
        let choice = if self.explicit_mode {
            match self.wanted() {
                Some(w) if run.contains(&w) => w,
                _ => {
                    if cur_runnable {
                        cur.unwrap()
                    } else {
                        run[0]
                    }
                }
            }
        } else if cur_runnable && !self.rng.ppm(self.switch_ppm) {
            cur.unwrap()
        } else {
            let others: Vec<usize> = run.iter().copied().filter(|t| Some(*t) != cur).collect();
            if others.is_empty() {
                run[0]
            } else {
                others[self.rng.below(others.len())]
            }
        };
        if cur != Some(choice) {
            self.switches += 1;
        }
        match self.rle.last_mut() {
            Some((t, n)) if *t as usize == choice => *n += 1,
            _ => self.rle.push((choice as u32, 1)),
        }
        Some(choice)
    }

    fn describe_deadlock(&self) -> String {
        let mut parts = Vec::new();
        for (i, s) in self.states.iter().enumerate() {
            if let TState::Blocked(name) = s {
                let holder = self
                    .rw
                    .iter()
                    .find(|(n, _)| n == name)
                    .map(|(_, st)| format!("writer {:?} readers {:?}", st.writer, st.readers))
                    .or_else(|| self.once.iter().find(|(n, _)| n == name).map(|(_, o)| format!("initialising thread {o:?}")))
                    .unwrap_or_default();
                parts.push(format!("t{i} waits for {name} ({holder})"));
            }
        }
        format!("deadlock: {}", parts.join("; "))
    }
}

/// Park until it is this thread's turn; returns with the engine lock held. Never returns
/// once the execution is dead.
fn wait_turn(
    me: usize,
    mut g: std::sync::MutexGuard<'static, Option<Engine>>,
) -> std::sync::MutexGuard<'static, Option<Engine>> {
    loop {
        {
            let e = g.as_mut().expect("engine");
            // whoever is here is awake: a thread that was taken for blocked is runnable again
            if e.states.get(me) == Some(&TState::ExtBlocked) {
                e.states[me] = TState::Runnable;
            }
            if e.dead.is_none() && e.turn == me {
                return g;
            }
        }
        g = match CV.wait(g) {
            Ok(g) => g,
            Err(p) => p.into_inner(),
        };
    }
}

/// Entry of every seam function: with the engine lock held, make sure the calling thread
/// is known to be awake and holds the baton (it may have lost it while asleep in the kernel).
fn enter(me: usize) -> std::sync::MutexGuard<'static, Option<Engine>> {
    let g = lock();
    let must_wait = match g.as_ref() {
        Some(e) if e.active => e.turn != me || e.states.get(me) == Some(&TState::ExtBlocked),
        _ => false,
    };
    if must_wait {
        wait_turn(me, g)
    } else {
        g
    }
}

fn hand_over(me: usize, mut g: std::sync::MutexGuard<'static, Option<Engine>>, next: usize) {
    if next == me {
        return;
    }
    g.as_mut().unwrap().set_turn(next);
    CV.notify_all();
    drop(wait_turn(me, g));
}

fn die(mut g: std::sync::MutexGuard<'static, Option<Engine>>, msg: String) -> ! {
    {
        let e = g.as_mut().unwrap();
        if e.dead.is_none() {
            e.dead = Some(msg);
        }
        e.set_turn(0);
    }
    CV.notify_all();
    // this thread is part of a dead execution: park for good (the process is about to exit)
    loop {
        g = match CV.wait(g) {
            Ok(g) => g,
            Err(p) => p.into_inner(),
        };
    }
}

/// A plain scheduling point of the running thread.
pub fn sched_point() {
    let me = tid();
    if me == 0 {
        return;
    }
    let _ = SINCE_SCHED.try_with(|c| c.set(0));
    let mut g = enter(me);
    let Some(e) = g.as_mut() else { return };
    if !e.active {
        return;
    }
    if e.steps >= e.max_steps {
        let msg = format!("exceeded max_steps bound of {}", e.max_steps);
        die(g, msg);
    }
    match e.decide(Some(me)) {
        Some(next) => hand_over(me, g, next),
        None => {}
    }
}

/// First thing a simulated thread does: wait to be scheduled for the first time.
pub fn thread_start(me: usize) {
    set_tid(me);
    let mut g = lock();
    if let Some(e) = g.as_mut() {
        e.os_tids[me] = unsafe { libc::syscall(libc::SYS_gettid) } as i32;
    }
    drop(wait_turn(me, g));
}

/// Last thing a simulated thread does.
pub fn thread_finish() {
    let me = tid();
    let mut g = enter(me);
    let e = g.as_mut().expect("engine");
    e.states[me] = TState::Finished;
    // The baton goes to the coordinator, which joins this OS thread (so that its
    // thread-local destructors have run) before anybody else continues: a caller thread
    // exiting while others are mid-compile is one atomic, scheduled step.
    e.exiting = Some(me);
    e.set_turn(0);
    CV.notify_all();
}

/// Is the kernel thread asleep in a futex wait? (Linux: state `S` and system call 202.)
fn asleep_in_futex(os_tid: i32) -> bool {
    if os_tid == 0 {
        return false;
    }
    let stat = match std::fs::read_to_string(format!("/proc/self/task/{os_tid}/stat")) {
        Ok(s) => s,
        Err(_) => return false,
    };
    // "<pid> (<comm>) <state> ..." — comm may contain spaces, so look after the last ')'
    let state = stat.rsplit(')').next().and_then(|r| r.trim_start().chars().next());
    if state != Some('S') {
        return false;
    }
    match std::fs::read_to_string(format!("/proc/self/task/{os_tid}/syscall")) {
        Ok(s) => s.split_whitespace().next() == Some("202"),
        Err(_) => false,
    }
}

/// Coordinator: hand the baton to the first thread, then watch until every simulated thread
/// finished or the execution died. `join` is called with the id of each thread that
/// finished, while nobody else runs.
///
/// The coordinator also notices a baton holder that is asleep in the kernel — blocked on a
/// real lock that a parked thread holds, or waiting for a thread of the library's own. That
/// thread cannot hand the baton over itself; the coordinator marks it `ExtBlocked` and lets
/// the scheduler pick somebody else. When the sleeper wakes up it runs without the baton
/// until its next seam (its next allocation, since `ARMED_ALL` is set from then on), where
/// it stops and queues up again. Executions in which this happened are flagged: their
/// schedule is no longer a pure function of the plan.
pub fn coordinate(mut join: impl FnMut(usize)) {
    {
        let mut g = lock();
        let e = g.as_mut().expect("engine");
        match e.decide(None) {
            Some(first) => e.set_turn(first),
            None => return,
        }
    }
    CV.notify_all();
    let mut last_progress: (usize, u64) = (usize::MAX, 0);
    // real monotonic time (the libc symbol is the simulated clock in this process)
    let real_ms = || -> u64 {
        let mut ts = libc::timespec { tv_sec: 0, tv_nsec: 0 };
        unsafe { libc::syscall(libc::SYS_clock_gettime, libc::CLOCK_MONOTONIC, &mut ts as *mut libc::timespec) };
        ts.tv_sec as u64 * 1000 + ts.tv_nsec as u64 / 1_000_000
    };
    let mut asleep_since: Option<u64> = None;
    let mut all_asleep_since: Option<u64> = None;
    loop {
        // poll with a real (relative) sleep: timed waits on a condvar would compute their
        // deadline from the simulated clock
        unsafe { libc::usleep(300) };
        let mut g = lock();
        let e = g.as_mut().unwrap();
        if e.dead.is_some() {
            return;
        }
        if e.turn == 0 {
            if let Some(t) = e.exiting.take() {
                drop(g);
                join(t);
                g = lock();
                let e = g.as_mut().unwrap();
                match e.decide(None) {
                    Some(next) => {
                        e.set_turn(next);
                        CV.notify_all();
                    }
                    None => {
                        if e.states.iter().all(|s| *s == TState::Finished) {
                            return;
                        }
                        if !e.states.iter().any(|s| *s == TState::ExtBlocked) {
                            let msg = e.describe_deadlock();
                            e.dead = Some(msg);
                            return;
                        }
                        // somebody asleep in the kernel may still come back
                    }
                }
                continue;
            }
            if e.states.iter().all(|s| *s == TState::Finished) {
                return;
            }
            // the baton is here because nobody was runnable: has a sleeper come back?
            if let Some(next) = e.decide(None) {
                e.set_turn(next);
                CV.notify_all();
                all_asleep_since = None;
                continue;
            }
            // Nobody can run and the rest is asleep in the kernel. If that lasts, the callers
            // wait for each other through real locks: a deadlock of the library itself.
            let t0 = *all_asleep_since.get_or_insert_with(&real_ms);
            if real_ms().saturating_sub(t0) >= 5_000 {
                let who: Vec<String> = e
                    .states
                    .iter()
                    .enumerate()
                    .filter(|(_, s)| **s != TState::Finished)
                    .map(|(i, s)| format!("t{i} {s:?}"))
                    .collect();
                e.dead = Some(format!(
                    "deadlock: no caller can run and the unfinished ones have been asleep in the kernel (real locks or channels) for 5 s: {}",
                    who.join(", ")
                ));
                return;
            }
            continue;
        }
        // somebody holds the baton: is it making progress?
        let holder = e.turn;
        let progress = (holder, e.steps);
        if progress != last_progress {
            last_progress = progress;
            asleep_since = None;
            continue;
        }
        let os_tid = e.os_tids.get(holder).copied().unwrap_or(0);
        drop(g);
        if asleep_in_futex(os_tid) {
            if asleep_since.is_none() {
                asleep_since = Some(real_ms());
            }
        } else {
            asleep_since = None;
        }
        // asleep in a futex for 25 ms of real time without a single scheduling step: blocked
        if asleep_since.is_some_and(|t0| real_ms().saturating_sub(t0) >= 25) {
            asleep_since = None;
            let mut g = lock();
            let e = g.as_mut().unwrap();
            if e.turn == holder && e.steps == last_progress.1 && e.dead.is_none() {
                e.states[holder] = TState::ExtBlocked;
                e.ext_blocks += 1;
                ARMED_ALL.store(true, Ordering::SeqCst);
                match e.decide(None) {
                    Some(next) => e.set_turn(next),
                    None => e.set_turn(0),
                }
                CV.notify_all();
            }
        }
    }
}

fn block_on(me: usize, name: &'static str, mut g: std::sync::MutexGuard<'static, Option<Engine>>) {
    // caller has established that the resource is not available
    let e = g.as_mut().unwrap();
    e.states[me] = TState::Blocked(name);
    match e.decide(None) {
        Some(next) => {
            e.set_turn(next);
            CV.notify_all();
            drop(wait_turn(me, g));
        }
        None => {
            if e.states.iter().any(|s| *s == TState::ExtBlocked) {
                // somebody is asleep in the kernel and may still come back: wait for that
                e.set_turn(0);
                CV.notify_all();
                drop(wait_turn(me, g));
                return;
            }
            let msg = e.describe_deadlock();
            die(g, msg);
        }
    }
}

fn wake_waiters(e: &mut Engine, name: &'static str) {
    for s in e.states.iter_mut() {
        if *s == TState::Blocked(name) {
            *s = TState::Runnable;
        }
    }
}

/// Returns true if the thread had to wait.
pub fn rw_acquire(name: &'static str, write: bool) -> bool {
    let me = tid();
    if me == 0 || !active() {
        return false;
    }
    sched_point();
    let mut waited = false;
    loop {
        let mut g = enter(me);
        let e = g.as_mut().unwrap();
        if !e.rw.iter().any(|(n, _)| *n == name) {
            e.rw.push((name, RwState::default()));
        }
        let st = &mut e.rw.iter_mut().find(|(n, _)| *n == name).unwrap().1;
        if st.writer == Some(me) || st.readers.contains(&me) {
            let msg = format!("deadlock: t{me} acquires {name} which it already holds");
            die(g, msg);
        }
        let free = if write {
            st.writer.is_none() && st.readers.is_empty()
        } else {
            st.writer.is_none()
        };
        if free {
            if write {
                st.writer = Some(me);
            } else {
                st.readers.push(me);
            }
            drop(g);
            // a real thread can be preempted right after it got the lock: let others run
            // (and block) while this one holds the shadow — the real lock is taken only
            // after the hook returns, so nobody can reach it meanwhile
            sched_point();
            return waited;
        }
        waited = true;
        block_on(me, name, g);
    }
}

pub fn rw_release(name: &'static str) {
    let me = tid();
    if me == 0 || !active() {
        return;
    }
    {
        let mut g = enter(me);
        let e = g.as_mut().unwrap();
        if let Some((_, st)) = e.rw.iter_mut().find(|(n, _)| *n == name) {
            if st.writer == Some(me) {
                st.writer = None;
            } else {
                st.readers.retain(|r| *r != me);
            }
        }
        wake_waiters(e, name);
    }
    sched_point();
}

/// Returns true if the thread had to wait for another thread's initialisation.
pub fn once_enter(name: &'static str) -> bool {
    let me = tid();
    if me == 0 || !active() {
        return false;
    }
    sched_point();
    let mut waited = false;
    loop {
        let mut g = enter(me);
        let e = g.as_mut().unwrap();
        if !e.once.iter().any(|(n, _)| *n == name) {
            e.once.push((name, None));
        }
        let owner = &mut e.once.iter_mut().find(|(n, _)| *n == name).unwrap().1;
        match owner {
            None => {
                *owner = Some(me);
                return waited;
            }
            Some(o) if *o == me => {
                let msg = format!("deadlock: t{me} re-enters the initialisation of {name}");
                die(g, msg);
            }
            Some(_) => {
                waited = true;
                block_on(me, name, g);
            }
        }
    }
}

pub fn once_exit(name: &'static str) {
    let me = tid();
    if me == 0 || !active() {
        return;
    }
    {
        let mut g = enter(me);
        let e = g.as_mut().unwrap();
        if let Some((_, owner)) = e.once.iter_mut().find(|(n, _)| *n == name) {
            if *owner == Some(me) {
                *owner = None;
            }
        }
        wake_waiters(e, name);
    }
    sched_point();
}

#[allow(dead_code)]
pub fn debug_state() -> String {
    let g = lock();
    match g.as_ref() {
        Some(e) => format!("turn {} states {:?} steps {}", e.turn, e.states, e.steps),
        None => "no engine".into(),
    }
}

#[allow(dead_code)]
pub fn note(_s: &str) {
    let _ = state;
}
