//! Seams: every source of nondeterminism C11 depends on, owned by the simulator.
//!
//! * `getrandom`  — std's `RandomState` keys (hash seeds) come from a PRNG.
//! * hook callback — shadow locks so that the scheduler sees every acquisition
//!   of `CURRENT_LOG` and every first initialisation of a lazily built static.
//! * `log::Log`   — the global logger: preemption points and injected panics at
//!   the library's `log::debug!` sites, optional forwarding to the real
//!   `MessageLogger` while a debug session is open.
//! * panic hook   — silent, records the last panic message.

use std::cell::RefCell;
use std::fmt::Write as _;
use std::sync::atomic::{AtomicBool, AtomicU64, AtomicUsize, Ordering};
use std::sync::Mutex;

use crate::rng::{fnv_update, mix, splitmix64, Rng, FNV_OFFSET};

// ------------------------------------------------------------------ getrandom

static HASH_BASE: AtomicU64 = AtomicU64::new(0);
static HASH_CTR: AtomicU64 = AtomicU64::new(0);
pub static GETRANDOM_CALLS: AtomicU64 = AtomicU64::new(0);

/// std resolves `getrandom` weakly ("a weak symbol allows interposition").
/// Defining it here makes every thread's `RandomState` keys a pure function of
/// (hash base, number of earlier getrandom calls since the base was set).
#[no_mangle]
pub unsafe extern "C" fn getrandom(
    buf: *mut libc::c_void,
    buflen: libc::size_t,
    _flags: libc::c_uint,
) -> libc::ssize_t {
    let base = HASH_BASE.load(Ordering::SeqCst);
    let ctr = HASH_CTR.fetch_add(1, Ordering::SeqCst);
    GETRANDOM_CALLS.fetch_add(1, Ordering::SeqCst);
    let mut s = mix(base, ctr);
    let out = buf as *mut u8;
    let mut i = 0usize;
    while i < buflen {
        let w = splitmix64(&mut s).to_le_bytes();
        let mut j = 0;
        while j < 8 && i < buflen {
            *out.add(i) = w[j];
            i += 1;
            j += 1;
        }
    }
    buflen as libc::ssize_t
}

// ------------------------------------------------------------------ basic blocks

/// SanitizerCoverage callbacks (the library crates are compiled with trace-pc-guard, see
/// sim/rustc-wrap.sh). LLVM does not instrument functions whose names start with
/// `__sanitizer_`, so these two are safe from recursion.
#[no_mangle]
pub unsafe extern "C" fn __sanitizer_cov_trace_pc_guard_init(_start: *mut u32, _stop: *mut u32) {}

#[no_mangle]
pub unsafe extern "C" fn __sanitizer_cov_trace_pc_guard(_guard: *mut u32) {
    crate::threads::block_point();
}

// ------------------------------------------------------------------ clock

/// 0 = real clock; otherwise nanoseconds the simulated clock advances per reading
static CLOCK_STEP_NS: AtomicU64 = AtomicU64::new(0);
static CLOCK_READS: AtomicU64 = AtomicU64::new(0);

/// The library has no timer or deadline today (one `SystemTime::now()` feeds the debug
/// log's `started_at`). Should that change, time must be the simulator's: `clock_gettime`
/// is interposed like `getrandom`. In a simulated process every reading returns a fixed
/// epoch plus (number of readings so far) x (the plan's step): a "fast machine" when the
/// step is a microsecond, a machine that stalls for a second between any two readings when
/// it is 10^9. Outside simulated processes (driver, workers) the real clock answers.
#[no_mangle]
pub unsafe extern "C" fn clock_gettime(clk: libc::clockid_t, tp: *mut libc::timespec) -> libc::c_int {
    let step = CLOCK_STEP_NS.load(Ordering::SeqCst);
    if step == 0 || tp.is_null() {
        return libc::syscall(libc::SYS_clock_gettime, clk, tp) as libc::c_int;
    }
    let n = CLOCK_READS.fetch_add(1, Ordering::SeqCst);
    let ns = n.saturating_mul(step);
    // 2026-01-01T00:00:00Z for wall clocks, 1000 s for monotonic ones
    let base: u64 = if clk == libc::CLOCK_REALTIME { 1_767_225_600 } else { 1_000 };
    (*tp).tv_sec = (base + ns / 1_000_000_000) as libc::time_t;
    (*tp).tv_nsec = (ns % 1_000_000_000) as libc::c_long;
    0
}

pub fn set_clock_step(ns: u64) {
    CLOCK_READS.store(0, Ordering::SeqCst);
    CLOCK_STEP_NS.store(ns, Ordering::SeqCst);
}

pub fn clock_reads() -> u64 {
    CLOCK_READS.load(Ordering::SeqCst)
}

/// New hash base: threads created from now on get keys derived from it.
pub fn set_hash_base(base: u64) {
    HASH_BASE.store(base, Ordering::SeqCst);
    HASH_CTR.store(0, Ordering::SeqCst);
}

/// Iteration order of a small map under the *current thread's* keys; proves
/// in the event log that the hash seed seam took effect.
pub fn canary() -> String {
    let mut m = std::collections::HashMap::new();
    for k in 0u32..12 {
        m.insert(k, ());
    }
    let mut s = String::new();
    for k in m.keys() {
        let _ = write!(s, "{k:x}");
    }
    s
}

// ------------------------------------------------------------------ sim state

#[derive(Default, Clone, Debug)]
pub struct TaskState {
    pub in_call: bool,
    pub call_idx: usize,
    pub records: u32,
    pub panic_at: Option<u32>,
    pub fault_fired: bool,
    pub overlapped: bool,
    /// the task is doing the host's "other work" inside a StagedSplit call: a panic fault
    /// belongs to the call under test, not to that work (the host would catch it and the
    /// call would still have to equal its reference)
    pub in_between: bool,
}

#[derive(Default, Clone, Debug, serde::Serialize, serde::Deserialize)]
pub struct Counters {
    pub hook_events: u64,
    pub rw_acquires: u64,
    pub rw_contended: u64,
    pub once_inits: u64,
    pub once_contended: u64,
    pub std_init_contended: u64,
    pub log_records: u64,
    pub log_yields: u64,
    pub panics_injected: u64,
    pub panics_while_other_in_flight: u64,
    pub calls_overlapped: u64,
    pub session_records: u64,
    #[serde(default)]
    pub alloc_yields: u64,
    #[serde(default)]
    pub block_yields: u64,
    #[serde(default)]
    pub atomic_yields: u64,
    /// atomic operations executed by library code of calls on simulated threads
    #[serde(default)]
    pub atomic_ops: u64,
    /// conflict-directed holds started / conflicts (another thread reached the held address)
    #[serde(default)]
    pub atomic_holds: u64,
    #[serde(default)]
    pub atomic_conflicts: u64,
}

pub struct SimState {
    pub in_shuttle: bool,
    pub log_yield_ppm: u32,
    pub yield_rng: Rng,
    /// fault `heap_layout`: probability (ppm) of shuffling the allocator's small free lists
    /// at a log site, and its own PRNG stream
    pub heap_ppm: u32,
    pub heap_rng: Rng,
    pub tasks: Vec<TaskState>,
    pub digest: u64,
    pub nevents: u64,
    pub log: Option<Vec<String>>,
    pub counters: Counters,
    pub session_open: bool,
    /// tasks currently inside debug::log_start / log_finish
    pub session_transition: Vec<usize>,
    pub seq_task: usize,
}

impl SimState {
    pub const fn empty() -> Self {
        SimState {
            in_shuttle: false,
            log_yield_ppm: 0,
            yield_rng: Rng(0),
            heap_ppm: 0,
            heap_rng: Rng(0),
            tasks: Vec::new(),
            digest: FNV_OFFSET,
            nevents: 0,
            log: None,
            counters: Counters {
                hook_events: 0,
                rw_acquires: 0,
                rw_contended: 0,
                once_inits: 0,
                once_contended: 0,
                std_init_contended: 0,
                log_records: 0,
                log_yields: 0,
                panics_injected: 0,
                panics_while_other_in_flight: 0,
                calls_overlapped: 0,
                session_records: 0,
                alloc_yields: 0,
                block_yields: 0,
                atomic_yields: 0,
                atomic_ops: 0,
                atomic_holds: 0,
                atomic_conflicts: 0,
            },
            session_open: false,
            session_transition: Vec::new(),
            seq_task: 0,
        }
    }

    /// Append one line to the event log (digest always, text when kept).
    pub fn ev(&mut self, line: &str) {
        self.digest = fnv_update(self.digest, line.as_bytes());
        self.digest = fnv_update(self.digest, b"\n");
        self.nevents += 1;
        if trace_on() {
            eprintln!("EV {line}");
        }
        if let Some(l) = self.log.as_mut() {
            if l.len() < 4000 {
                l.push(line.to_string());
            }
        }
    }
}

pub fn trace_on() -> bool {
    static T: std::sync::OnceLock<bool> = std::sync::OnceLock::new();
    *T.get_or_init(|| std::env::var_os("VERIF_TRACE").is_some())
}

/// How simulated callers are executed: one after another, as shuttle coroutines on one OS
/// thread, or as real OS threads handed a baton (threads.rs).
#[derive(Clone, Copy, PartialEq, Eq, Debug)]
pub enum Mode {
    Sequential,
    Shuttle,
    Threads,
    /// callers are real OS threads that run freely (the operating system schedules them);
    /// only a fallback for executions the simulator cannot interleave (see exec.rs run_free)
    Free,
}

static MODE: AtomicUsize = AtomicUsize::new(0);

pub fn set_mode(m: Mode) {
    MODE.store(m as usize, Ordering::SeqCst);
    IN_SHUTTLE.store(m == Mode::Shuttle, Ordering::SeqCst);
    state().in_shuttle = m == Mode::Shuttle || m == Mode::Threads;
}

pub fn mode() -> Mode {
    match MODE.load(Ordering::SeqCst) {
        1 => Mode::Shuttle,
        2 => Mode::Threads,
        3 => Mode::Free,
        _ => Mode::Sequential,
    }
}

pub static STATE: Mutex<SimState> = Mutex::new(SimState::empty());
static IN_SHUTTLE: AtomicBool = AtomicBool::new(false);
static SEQ_TASK: AtomicUsize = AtomicUsize::new(0);

pub fn state() -> std::sync::MutexGuard<'static, SimState> {
    match STATE.lock() {
        Ok(g) => g,
        Err(p) => p.into_inner(),
    }
}


pub fn in_shuttle() -> bool {
    IN_SHUTTLE.load(Ordering::SeqCst)
}

pub fn set_in_between(v: bool) {
    let _gate = crate::threads::gate_close();
    let task = cur_task();
    let mut st = state();
    if task < st.tasks.len() {
        st.tasks[task].in_between = v;
    }
}

pub fn set_seq_task(t: usize) {
    SEQ_TASK.store(t, Ordering::SeqCst);
}

/// Index of the simulated caller thread that is executing right now.
/// Shuttle task ids are assigned in spawn order: 0 = main (spawner, sentinel
/// phase), k = k-th spawned caller. Sequential mode sets it explicitly.
pub fn cur_task() -> usize {
    match mode() {
        Mode::Shuttle => match shuttle::current::get_current_task() {
            Some(t) => usize::from(t),
            None => 0,
        },
        Mode::Threads | Mode::Free => crate::threads::tid(),
        Mode::Sequential => SEQ_TASK.load(Ordering::SeqCst),
    }
}

// ------------------------------------------------------------------ hooks

enum Held {
    /// acquired while the task was unwinding: no shuttle object behind it
    Skipped,
    W(#[allow(dead_code)] shuttle::sync::RwLockWriteGuard<'static, ()>),
    R(#[allow(dead_code)] shuttle::sync::RwLockReadGuard<'static, ()>),
    M(#[allow(dead_code)] shuttle::sync::MutexGuard<'static, ()>),
}

#[derive(Default)]
struct Shadow {
    rw: Vec<(&'static str, &'static shuttle::sync::RwLock<()>)>,
    mx: Vec<(&'static str, &'static shuttle::sync::Mutex<()>)>,
    stacks: Vec<Vec<(&'static str, Held)>>,
}

thread_local! {
    static SHADOW: RefCell<Shadow> = RefCell::new(Shadow::default());
}

fn shadow_rw(name: &'static str) -> &'static shuttle::sync::RwLock<()> {
    SHADOW.with(|s| {
        let mut s = s.borrow_mut();
        if let Some((_, l)) = s.rw.iter().find(|(n, _)| *n == name) {
            return *l;
        }
        let l: &'static shuttle::sync::RwLock<()> = Box::leak(Box::new(shuttle::sync::RwLock::new(())));
        s.rw.push((name, l));
        l
    })
}

fn shadow_mx(name: &'static str) -> &'static shuttle::sync::Mutex<()> {
    SHADOW.with(|s| {
        let mut s = s.borrow_mut();
        if let Some((_, l)) = s.mx.iter().find(|(n, _)| *n == name) {
            return *l;
        }
        let l: &'static shuttle::sync::Mutex<()> = Box::leak(Box::new(shuttle::sync::Mutex::new(())));
        s.mx.push((name, l));
        l
    })
}

fn push_held(task: usize, name: &'static str, h: Held) {
    SHADOW.with(|s| {
        let mut s = s.borrow_mut();
        while s.stacks.len() <= task {
            s.stacks.push(Vec::new());
        }
        s.stacks[task].push((name, h));
    })
}

fn pop_held(task: usize, name: &'static str, unwinding: bool) {
    let h = SHADOW.with(|s| {
        let mut s = s.borrow_mut();
        if s.stacks.len() <= task {
            return None;
        }
        // innermost guard of that name (guards nest, so normally the last)
        let pos = s.stacks[task].iter().rposition(|(n, _)| *n == name)?;
        if unwinding && !matches!(s.stacks[task][pos].1, Held::Skipped) {
            // Dropping a shuttle guard is a scheduling point. All simulated threads share one
            // OS thread and with it std's thread-local panic count, so no other task may run
            // while this one unwinds (it would see `thread::panicking()` and poison real locks
            // it releases). The guard stays until `flush_held` after the panic was caught:
            // unwinding is atomic with respect to the other simulated threads.
            return None;
        }
        Some(s.stacks[task].remove(pos))
    });
    // the guard is dropped here, outside the RefCell borrow: releasing a
    // shuttle lock may be a scheduling point
    drop(h);
}

/// After an execution ended (normally or not): whatever is still registered belongs to a
/// finished execution and must not run shuttle code when dropped.
pub fn leak_shadow() {
    SHADOW.with(|s| {
        let old = std::mem::take(&mut *s.borrow_mut());
        std::mem::forget(old);
    });
}

/// Release, innermost first, the shadow guards a caught panic left behind.
pub fn flush_held(task: usize) {
    loop {
        let h = SHADOW.with(|s| {
            let mut s = s.borrow_mut();
            if s.stacks.len() <= task {
                return None;
            }
            s.stacks[task].pop()
        });
        match h {
            Some(g) => drop(g),
            None => break,
        }
    }
}

/// Must be called at the start of each execution, inside the shuttle closure,
/// because shuttle sync objects belong to one execution.
pub fn reset_shadow() {
    SHADOW.with(|s| *s.borrow_mut() = Shadow::default());
}

pub fn hook_callback(e: prqlc::verif_hooks::Event) {
    use prqlc::verif_hooks::Event::*;
    let _gate = crate::threads::gate_close();
    let shuttle_on = in_shuttle();
    let task = cur_task();
    {
        let mut st = state();
        st.counters.hook_events += 1;
        match e {
            Acquire { .. } => st.counters.rw_acquires += 1,
            OnceEnter { done: false, .. } => st.counters.once_inits += 1,
            _ => {}
        }
    }
    if mode() == Mode::Threads {
        // real threads: thread-locals and the panic count are per thread, so hook events are
        // ordinary scheduling points even while unwinding
        match e {
            Acquire { name, write } => {
                let waited = crate::threads::rw_acquire(name, write);
                let mut st = state();
                if waited {
                    st.counters.rw_contended += 1;
                    st.ev(&format!("t{task} block {name} {}", if write { "w" } else { "r" }));
                }
                st.ev(&format!("t{task} acquire {name} {}", if write { "w" } else { "r" }));
            }
            Release { name, .. } => {
                state().ev(&format!("t{task} release {name}"));
                crate::threads::rw_release(name);
            }
            OnceEnter { name, done: false } => {
                let waited = crate::threads::once_enter(name);
                let mut st = state();
                if waited {
                    st.counters.once_contended += 1;
                    if name == "STD" {
                        st.counters.std_init_contended += 1;
                    }
                    st.ev(&format!("t{task} once-block {name}"));
                }
                st.ev(&format!("t{task} once-enter {name}"));
            }
            OnceExit { name, done: false } => {
                state().ev(&format!("t{task} once-exit {name}"));
                crate::threads::once_exit(name);
            }
            _ => {}
        }
        return;
    }
    if !shuttle_on {
        return;
    }
    let unwinding = std::thread::panicking();
    if unwinding {
        // no interaction with the scheduler while this task unwinds (see pop_held)
        match e {
            Acquire { name, .. } => push_held(task, name, Held::Skipped),
            OnceEnter { name, done: false } => push_held(task, name, Held::Skipped),
            Release { name, .. } => pop_held(task, name, true),
            OnceExit { name, done: false } => pop_held(task, name, true),
            _ => {}
        }
        return;
    }
    match e {
        Acquire { name, write } => {
            let l = shadow_rw(name);
            let held = if write {
                match l.try_write() {
                    Ok(g) => {
                        state().ev(&format!("t{task} acquire {name} w"));
                        Held::W(g)
                    }
                    Err(_) => {
                        {
                            let mut st = state();
                            st.counters.rw_contended += 1;
                            st.ev(&format!("t{task} block {name} w"));
                        }
                        let g = l.write().unwrap_or_else(|p| p.into_inner());
                        state().ev(&format!("t{task} acquire {name} w"));
                        Held::W(g)
                    }
                }
            } else {
                match l.try_read() {
                    Ok(g) => {
                        state().ev(&format!("t{task} acquire {name} r"));
                        Held::R(g)
                    }
                    Err(_) => {
                        {
                            let mut st = state();
                            st.counters.rw_contended += 1;
                            st.ev(&format!("t{task} block {name} r"));
                        }
                        let g = l.read().unwrap_or_else(|p| p.into_inner());
                        state().ev(&format!("t{task} acquire {name} r"));
                        Held::R(g)
                    }
                }
            };
            push_held(task, name, held);
        }
        Release { name, .. } => {
            state().ev(&format!("t{task} release {name}"));
            pop_held(task, name, false);
        }
        OnceEnter { name, done } => {
            if !done {
                let l = shadow_mx(name);
                let g = match l.try_lock() {
                    Ok(g) => g,
                    Err(_) => {
                        {
                            let mut st = state();
                            st.counters.once_contended += 1;
                            if name == "STD" {
                                st.counters.std_init_contended += 1;
                            }
                            st.ev(&format!("t{task} once-block {name}"));
                        }
                        l.lock().unwrap_or_else(|p| p.into_inner())
                    }
                };
                state().ev(&format!("t{task} once-enter {name}"));
                push_held(task, name, Held::M(g));
            }
        }
        OnceExit { name, done } => {
            if !done {
                state().ev(&format!("t{task} once-exit {name}"));
                pop_held(task, name, false);
            }
        }
    }
}

// ------------------------------------------------------------------ logger

pub const INJECTED_PANIC_MSG: &str = "VERIF injected panic at log site";

/// Allocate a few blocks of small size classes and free some of them in a seeded order:
/// the next allocations of those classes on this thread land elsewhere, and in another
/// relative order, than they would have.
pub fn shuffle_free_lists(seed: u64) {
    let mut r = Rng::new(seed);
    let n = r.range(2, 12);
    let mut blocks: Vec<Option<Vec<u8>>> = (0..n).map(|i| Some(vec![i as u8; 8 * r.range(1, 12)])).collect();
    let mut order: Vec<usize> = (0..n).collect();
    r.shuffle(&mut order);
    for i in order {
        if r.below(4) != 0 {
            blocks[i] = None;
        }
    }
    std::mem::forget(blocks);
}

pub struct SimLogger;
static LOGGER: SimLogger = SimLogger;
static REAL_LOGGER: prqlc::debug::MessageLogger = prqlc::debug::MessageLogger;

impl log::Log for SimLogger {
    /// Exactly what the CLI wires (`MessageLogger`): enabled while a debug session is open
    /// and not suppressed. `log::log_enabled!` guards in the library see the real answer.
    fn enabled(&self, m: &log::Metadata) -> bool {
        let _gate = crate::threads::gate_close();
        log::Log::enabled(&REAL_LOGGER, m)
    }

    fn log(&self, record: &log::Record) {
        let _gate = crate::threads::gate_close();
        let task = cur_task();
        let (do_panic, do_yield, session, others_in_flight);
        let mut heap_seed = None;
        {
            let mut st = state();
            if st.session_transition.contains(&task) {
                // a record emitted by log_start/log_finish themselves: the CLI's logger gets
                // it like any other (and so does the real one here)
                drop(st);
                log::Log::log(&REAL_LOGGER, record);
                return;
            }
            if task >= st.tasks.len() || !st.tasks[task].in_call {
                return;
            }
            st.counters.log_records += 1;
            st.tasks[task].records += 1;
            let n = st.tasks[task].records;
            // (shuttle engine only: nothing may be scheduled or injected while unwinding)
            let unwinding = std::thread::panicking();
            do_panic = st.tasks[task].panic_at == Some(n) && !unwinding && !st.tasks[task].in_between;
            session = st.session_open;
            others_in_flight = st
                .tasks
                .iter()
                .enumerate()
                .any(|(i, t)| i != task && t.in_call);
            do_yield = st.in_shuttle && !unwinding && {
                let p = st.log_yield_ppm;
                st.yield_rng.ppm(p)
            };
            if session {
                st.counters.session_records += 1;
            }
            if st.heap_ppm > 0 {
                let p = st.heap_ppm;
                if st.heap_rng.ppm(p) {
                    heap_seed = Some(st.heap_rng.next_u64());
                }
            }
        }
        if let Some(hs) = heap_seed {
            shuffle_free_lists(hs);
        }
        if session {
            // What `prqlc compile --debug-log` wires: the real MessageLogger. It formats the
            // arguments only while the session is enabled, as in the CLI.
            log::Log::log(&REAL_LOGGER, record);
        }
        if do_panic {
            {
                let mut st = state();
                st.tasks[task].fault_fired = true;
                st.counters.panics_injected += 1;
                if others_in_flight {
                    st.counters.panics_while_other_in_flight += 1;
                }
                let n = st.tasks[task].records;
                st.ev(&format!("t{task} fault panic_injected record={n}"));
            }
            panic!("{}", INJECTED_PANIC_MSG);
        }
        if do_yield {
            {
                let mut st = state();
                st.counters.log_yields += 1;
                let n = st.tasks[task].records;
                st.ev(&format!("t{task} log-yield {n}"));
            }
            match mode() {
                Mode::Threads => crate::threads::sched_point(),
                Mode::Shuttle => shuttle::thread::yield_now(),
                Mode::Sequential | Mode::Free => {}
            }
        }
    }

    fn flush(&self) {}
}

// ------------------------------------------------------------------ panic hook

pub static LAST_PANIC: Mutex<String> = Mutex::new(String::new());

pub fn last_panic() -> String {
    match LAST_PANIC.lock() {
        Ok(g) => g.clone(),
        Err(p) => p.into_inner().clone(),
    }
}

/// Install all process-wide seams. Idempotent.
pub fn install() {
    static DONE: AtomicBool = AtomicBool::new(false);
    if DONE.swap(true, Ordering::SeqCst) {
        return;
    }
    // The colour decision is left at the library's default (anstream's global `Auto`): it is
    // process state like any other, and a call that changes it must show (seeded change
    // S21). What is pinned is the environment around it: colour variables removed here, and
    // every child's stderr is /dev/null (not a terminal), in the reference context too.
    for v in ["CLICOLOR", "CLICOLOR_FORCE", "NO_COLOR", "PRQL_VERSION_OVERRIDE"] {
        std::env::remove_var(v);
    }
    let _ = log::set_logger(&LOGGER);
    log::set_max_level(log::LevelFilter::Trace);
    prqlc::verif_hooks::set_callback(hook_callback);
    std::panic::set_hook(Box::new(|info| {
        let _gate = crate::threads::gate_close();
        let msg = if let Some(s) = info.payload().downcast_ref::<&str>() {
            s.to_string()
        } else if let Some(s) = info.payload().downcast_ref::<String>() {
            s.clone()
        } else {
            "<non-string panic>".to_string()
        };
        let loc = info
            .location()
            .map(|l| format!("{}:{}", l.file(), l.line()))
            .unwrap_or_default();
        let mut g = match LAST_PANIC.lock() {
            Ok(g) => g,
            Err(p) => p.into_inner(),
        };
        *g = format!("{msg} @ {loc}");
        if trace_on() {
            eprintln!("PANIC {msg} @ {loc} (task {})", cur_task());
        }
    }));
}
