//! Executes one Plan inside the current (pristine, forked) process.

use std::sync::{Arc, Mutex};

use shuttle::scheduler::{Schedule, Scheduler, Task, TaskId};

use crate::ops::{perform, Obs};
use crate::plan::{Call, CallOut, Outcome, Plan, Sched};
use crate::rng::{fnv, Rng};
use crate::seams::{self, state, TaskState};

const STACK: usize = 256 << 20;

fn begin_call(task: usize, k: usize, call: &Call) {
    let mut st = state();
    while st.tasks.len() <= task {
        st.tasks.push(TaskState::default());
    }
    let others: Vec<usize> = st
        .tasks
        .iter()
        .enumerate()
        .filter(|(i, t)| *i != task && t.in_call)
        .map(|(i, _)| i)
        .collect();
    for i in &others {
        st.tasks[*i].overlapped = true;
    }
    let t = &mut st.tasks[task];
    t.in_call = true;
    t.call_idx = k;
    t.records = 0;
    t.panic_at = call.panic_at;
    t.fault_fired = false;
    t.in_between = false;
    t.overlapped = !others.is_empty();
    if !others.is_empty() {
        st.counters.calls_overlapped += 1;
    }
    let kind = call.op.kind();
    st.ev(&format!("t{task} call {k} begin {kind}"));
}

fn end_call(task: usize, k: usize, obs: Obs) -> CallOut {
    let mut st = state();
    let t = &mut st.tasks[task];
    t.in_call = false;
    let out = CallOut {
        records: t.records,
        fault_fired: t.fault_fired,
        overlapped: t.overlapped,
        obs,
    };
    let line = format!(
        "t{task} call {k} end {} {:016x} records={}",
        out.obs.class,
        fnv(out.obs.text.as_bytes()),
        out.records
    );
    st.ev(&line);
    out
}

/// Run a piece of library code the way a host does: a panic is caught at the caller.
fn guarded<T>(task: usize, f: impl FnOnce() -> T) -> Result<T, String> {
    let r = std::panic::catch_unwind(std::panic::AssertUnwindSafe(f));
    if seams::in_shuttle() {
        // shadow guards a caught panic left behind (unwinding is atomic)
        seams::flush_held(task);
    }
    r.map_err(|_| seams::last_panic())
}

static HEAP_PERTURB: std::sync::atomic::AtomicU64 = std::sync::atomic::AtomicU64::new(0);
static HEAP_SEED: std::sync::atomic::AtomicU64 = std::sync::atomic::AtomicU64::new(0);

/// Fault `heap_layout`: on the calling thread, right before a call, allocate blocks of
/// seeded sizes (mostly small size classes) and free a seeded subset in a seeded order, so
/// that the allocator's free lists — and with them the addresses, and the relative order
/// of the addresses, of what the call allocates — differ from the reference context.
fn perturb_heap(task: usize, k: usize) {
    let n = HEAP_PERTURB.load(std::sync::atomic::Ordering::SeqCst) as usize;
    if n == 0 {
        return;
    }
    let seed = HEAP_SEED.load(std::sync::atomic::Ordering::SeqCst);
    let mut r = Rng::new(crate::rng::mix3(seed, task as u64, 0x4ea9 + k as u64));
    let mut blocks: Vec<Option<Vec<u8>>> = Vec::with_capacity(n);
    for i in 0..n {
        let size = match r.below(8) {
            0..=4 => 8 * r.range(1, 16),
            5 => r.range(128, 1024),
            6 => r.range(1024, 8192),
            _ => r.range(8192, 200_000),
        };
        blocks.push(Some(vec![i as u8; size]));
    }
    let mut order: Vec<usize> = (0..n).collect();
    r.shuffle(&mut order);
    for i in order {
        if r.below(3) != 0 {
            blocks[i] = None; // freed now, in this (random) order
        }
    }
    std::mem::forget(blocks); // the rest stays allocated
}

pub fn level_filter(l: Option<u8>) -> log::LevelFilter {
    match l {
        Some(0) => log::LevelFilter::Off,
        Some(1) => log::LevelFilter::Error,
        Some(2) => log::LevelFilter::Warn,
        Some(3) => log::LevelFilter::Info,
        Some(4) => log::LevelFilter::Debug,
        _ => log::LevelFilter::Trace,
    }
}

fn run_call(task: usize, k: usize, call: &Call) -> CallOut {
    perturb_heap(task, k);
    if let (Some(l), false) = (call.log_level, seams::in_shuttle()) {
        // the host turns its logging up or down between two calls
        log::set_max_level(level_filter(Some(l)));
        state().ev(&format!("t{task} fault log_level {l}"));
    }
    let mut session_err: Option<String> = None;
    if call.session {
        // the protocol `prqlc compile --debug-log` follows: one session, closed by its owner.
        // log_start/log_finish run outside the call window: they hold the CURRENT_LOG write
        // lock while they work, and a panic injected there would poison it — something the
        // real code cannot do to itself (DESIGN.md §3.5).
        state().session_transition.push(task);
        let started = guarded(task, prqlc::debug::log_start);
        state().session_transition.retain(|t| *t != task);
        match started {
            Ok(()) => {
                let mut st = state();
                st.session_open = true;
                st.ev(&format!("t{task} session start"));
            }
            Err(m) => {
                state().ev(&format!("t{task} session start PANICKED"));
                session_err = Some(format!("debug::log_start panicked: {m}"));
            }
        }
    }
    begin_call(task, k, call);
    let obs = match (session_err.clone(), call.hash_base, seams::in_shuttle()) {
        (Some(e), _, _) => Obs::panic(e),
        (None, Some(hb), false) => {
            seams::set_hash_base(hb);
            let op = call.op.clone();
            let h = std::thread::Builder::new()
                .stack_size(STACK)
                .spawn(move || {
                    let c = seams::canary();
                    (perform(&op), c)
                })
                .expect("spawn call thread");
            match h.join() {
                Ok((o, c)) => {
                    state().ev(&format!("t{task} call {k} hash_base {hb} canary {c}"));
                    o
                }
                Err(_) => Obs::panic("call thread died".into()),
            }
        }
        _ => {
            let o = {
                // allocation-point preemption is on only while the call's library code runs
                let _gate = crate::threads::gate_open_for_call();
                perform(&call.op)
            };
            if seams::in_shuttle() {
                // shadow guards a caught panic left behind (unwinding is atomic)
                seams::flush_held(task);
            }
            o
        }
    };
    let mut out = end_call(task, k, obs);
    if call.session && session_err.is_none() {
        {
            let mut st = state();
            st.session_open = false;
            st.ev(&format!("t{task} session finish"));
        }
        state().session_transition.push(task);
        let finished = guarded(task, || {
            let _ = prqlc::debug::log_finish();
        });
        state().session_transition.retain(|t| *t != task);
        if let Err(m) = finished {
            state().ev(&format!("t{task} session finish PANICKED"));
            out.obs = Obs::panic(format!("debug::log_finish panicked: {m}"));
        }
    }
    out
}

// ------------------------------------------------------------------ scheduler

#[derive(Default, Debug)]
pub struct SchedStats {
    pub steps: u64,
    pub switches: u64,
    pub rle: Vec<(u32, u32)>,
}

/// The simulator's own scheduler on top of shuttle's task machinery: every
/// decision comes from the plan's PRNG or from the plan's explicit schedule.
struct SimScheduler {
    rng: Rng,
    switch_ppm: u32,
    explicit: Vec<(u32, u32)>,
    pos: (usize, u32),
    started: bool,
    stats: Arc<Mutex<SchedStats>>,
}

impl SimScheduler {
    fn new(s: &Sched, stats: Arc<Mutex<SchedStats>>) -> Self {
        SimScheduler {
            rng: Rng::new(s.seed),
            switch_ppm: s.switch_ppm,
            explicit: s.explicit.clone().unwrap_or_default(),
            pos: (0, 0),
            started: false,
            stats,
        }
    }

    fn wanted(&mut self) -> Option<usize> {
        while self.pos.0 < self.explicit.len() {
            let (t, n) = self.explicit[self.pos.0];
            if self.pos.1 < n {
                self.pos.1 += 1;
                return Some(t as usize);
            }
            self.pos = (self.pos.0 + 1, 0);
        }
        None
    }
}

impl Scheduler for SimScheduler {
    fn new_execution(&mut self) -> Option<Schedule> {
        if self.started {
            None
        } else {
            self.started = true;
            Some(Schedule::new(0))
        }
    }

    fn next_task(&mut self, runnable: &[&Task], current: Option<TaskId>, _yielding: bool) -> Option<TaskId> {
        if runnable.is_empty() {
            return None;
        }
        let cur = current.map(usize::from);
        let cur_runnable = cur.is_some_and(|c| runnable.iter().any(|t| usize::from(t.id()) == c));
        let explicit_mode = !self.explicit.is_empty() || self.switch_ppm == 0;
        let choice: usize = if explicit_mode {
            match self.wanted() {
                Some(w) if runnable.iter().any(|t| usize::from(t.id()) == w) => w,
                _ => {
                    if cur_runnable {
                        cur.unwrap()
                    } else {
                        runnable.iter().map(|t| usize::from(t.id())).min().unwrap()
                    }
                }
            }
        } else if cur_runnable && !self.rng.ppm(self.switch_ppm) {
            cur.unwrap()
        } else {
            let others: Vec<usize> = runnable
                .iter()
                .map(|t| usize::from(t.id()))
                .filter(|t| Some(*t) != cur)
                .collect();
            if others.is_empty() {
                usize::from(runnable[0].id())
            } else {
                others[self.rng.below(others.len())]
            }
        };
        let mut st = self.stats.lock().unwrap();
        st.steps += 1;
        if cur != Some(choice) {
            st.switches += 1;
        }
        match st.rle.last_mut() {
            Some((t, n)) if *t as usize == choice => *n += 1,
            _ => st.rle.push((choice as u32, 1)),
        }
        Some(TaskId::from(choice))
    }

    fn next_u64(&mut self) -> u64 {
        self.rng.next_u64()
    }
}

// ------------------------------------------------------------------ plan execution

type Slots = Arc<Mutex<Vec<Vec<Option<CallOut>>>>>;

fn run_sequential(plan: &Plan) -> (Vec<Vec<CallOut>>, Vec<CallOut>) {
    let mut all = Vec::new();
    for (t, calls) in plan.threads.iter().enumerate() {
        // every simulated caller is a fresh OS thread: own thread-locals, own hash keys
        let calls = calls.clone();
        let h = std::thread::Builder::new()
            .stack_size(STACK)
            .spawn(move || {
                seams::set_seq_task(t + 1);
                let c = seams::canary();
                state().ev(&format!("t{} start canary {c}", t + 1));
                calls
                    .iter()
                    .enumerate()
                    .map(|(k, c)| run_call(t + 1, k, c))
                    .collect::<Vec<_>>()
            })
            .expect("spawn caller thread");
        all.push(h.join().expect("caller thread died outside a call"));
    }
    seams::set_seq_task(0);
    let sentinel = plan
        .sentinel
        .iter()
        .enumerate()
        .map(|(k, c)| run_call(0, k, c))
        .collect();
    (all, sentinel)
}

fn run_shuttle(plan: &Plan, out: &mut Outcome) -> (Vec<Vec<CallOut>>, Vec<CallOut>) {
    let slots: Slots = Arc::new(Mutex::new(
        plan.threads.iter().map(|c| vec![None; c.len()]).collect(),
    ));
    let sentinel_slots: Arc<Mutex<Vec<Option<CallOut>>>> =
        Arc::new(Mutex::new(vec![None; plan.sentinel.len()]));
    let stats = Arc::new(Mutex::new(SchedStats::default()));
    let sched = SimScheduler::new(&plan.sched, stats.clone());
    let mut cfg = shuttle::Config::new();
    cfg.stack_size = STACK;
    cfg.failure_persistence = shuttle::FailurePersistence::None;
    cfg.max_steps = shuttle::MaxSteps::FailAfter(3_000_000);
    cfg.silence_warnings = true;

    let threads = plan.threads.clone();
    let sentinel = plan.sentinel.clone();
    let s2 = slots.clone();
    let ss2 = sentinel_slots.clone();
    seams::set_mode(seams::Mode::Shuttle);
    let r = std::panic::catch_unwind(std::panic::AssertUnwindSafe(|| {
        shuttle::Runner::new(sched, cfg).run(move || {
            seams::reset_shadow();
            let mut hs = Vec::new();
            for (t, calls) in threads.iter().enumerate() {
                let calls = calls.clone();
                let s3 = s2.clone();
                hs.push(shuttle::thread::spawn(move || {
                    for (k, c) in calls.iter().enumerate() {
                        let o = run_call(t + 1, k, c);
                        s3.lock().unwrap()[t][k] = Some(o);
                    }
                }));
            }
            for h in hs {
                let _ = h.join();
            }
            state().ev("joined");
            for (k, c) in sentinel.iter().enumerate() {
                let o = run_call(0, k, c);
                ss2.lock().unwrap()[k] = Some(o);
            }
        });
    }));
    seams::set_mode(seams::Mode::Sequential);
    seams::leak_shadow();
    if r.is_err() {
        out.noreturn = Some(seams::last_panic());
    }
    {
        let st = stats.lock().unwrap();
        out.steps = st.steps;
        out.switches = st.switches;
        out.schedule = st.rle.clone();
    }
    let fill = |o: Option<CallOut>| {
        o.unwrap_or(CallOut {
            obs: Obs::noreturn("call did not return".into()),
            records: 0,
            fault_fired: false,
            overlapped: false,
        })
    };
    let calls = slots
        .lock()
        .unwrap()
        .iter()
        .map(|v| v.iter().cloned().map(fill).collect())
        .collect();
    let sent = sentinel_slots.lock().unwrap().iter().cloned().map(fill).collect();
    (calls, sent)
}

/// Fallback, NOT simulation: the callers are real OS threads released together and left to
/// the operating system. Used only for executions the simulator had to give up interleaving
/// (a blocking primitive without a hook blocks the baton holder for real). Whatever it
/// observes is real — an output that differs from the reference is a violation however the
/// threads were scheduled — but it is not replayable exactly; a finding from here is
/// labelled `uncontrolled_concurrency` and its replay repeats the plan until it shows again.
fn run_free(plan: &Plan, out: &mut Outcome) -> (Vec<Vec<CallOut>>, Vec<CallOut>) {
    let slots: Slots = Arc::new(Mutex::new(
        plan.threads.iter().map(|c| vec![None; c.len()]).collect(),
    ));
    seams::set_mode(seams::Mode::Free);
    let barrier = Arc::new(std::sync::Barrier::new(plan.threads.len()));
    let mut handles = Vec::new();
    for (t, calls) in plan.threads.iter().enumerate() {
        let calls = calls.clone();
        let s3 = slots.clone();
        let b = barrier.clone();
        handles.push(
            std::thread::Builder::new()
                .stack_size(STACK)
                .spawn(move || {
                    crate::threads::set_tid(t + 1);
                    b.wait();
                    for (k, c) in calls.iter().enumerate() {
                        let o = run_call(t + 1, k, c);
                        s3.lock().unwrap()[t][k] = Some(o);
                    }
                })
                .expect("spawn caller thread"),
        );
    }
    for h in handles {
        if h.join().is_err() {
            out.harness_error = Some(format!("a caller thread panicked outside a call: {}", seams::last_panic()));
        }
    }
    seams::set_mode(seams::Mode::Sequential);
    let fill = |o: Option<CallOut>| {
        o.unwrap_or(CallOut {
            obs: Obs::noreturn("call did not return".into()),
            records: 0,
            fault_fired: false,
            overlapped: false,
        })
    };
    let calls: Vec<Vec<CallOut>> = slots
        .lock()
        .unwrap()
        .iter()
        .map(|v| v.iter().cloned().map(fill).collect())
        .collect();
    seams::set_seq_task(0);
    let sentinel = plan
        .sentinel
        .iter()
        .enumerate()
        .map(|(k, c)| run_call(0, k, c))
        .collect();
    (calls, sentinel)
}

/// Interleaved execution on real OS threads under the baton scheduler (threads.rs).
fn run_threads(plan: &Plan, out: &mut Outcome) -> (Vec<Vec<CallOut>>, Vec<CallOut>) {
    use crate::threads;
    let slots: Slots = Arc::new(Mutex::new(
        plan.threads.iter().map(|c| vec![None; c.len()]).collect(),
    ));
    seams::set_mode(seams::Mode::Threads);
    threads::start(&plan.sched, plan.threads.len(), plan.alloc_yield_mean as u64, plan.block_yield_mean as u64, plan.atomic_yield_mean as u64, plan.atomic_hold_mean as u64, plan.atomic_focus as u64 | ((plan.spin_guard as u64) << 16));
    let mut handles = Vec::new();
    for (t, calls) in plan.threads.iter().enumerate() {
        let calls = calls.clone();
        let s3 = slots.clone();
        let h = std::thread::Builder::new()
            .stack_size(STACK)
            .spawn(move || {
                threads::thread_start(t + 1);
                let r = std::panic::catch_unwind(std::panic::AssertUnwindSafe(|| {
                    let c = seams::canary();
                    state().ev(&format!("t{} start canary {c}", t + 1));
                    for (k, c) in calls.iter().enumerate() {
                        threads::sched_point();
                        let o = run_call(t + 1, k, c);
                        s3.lock().unwrap()[t][k] = Some(o);
                    }
                }));
                if r.is_err() {
                    state().ev(&format!("t{} HARNESS caller thread panicked outside a call", t + 1));
                }
                threads::thread_finish();
                r.is_ok()
            })
            .expect("spawn caller thread");
        handles.push(h);
    }
    let mut handles: Vec<Option<std::thread::JoinHandle<bool>>> = handles.into_iter().map(Some).collect();
    let mut caller_panicked = false;
    threads::coordinate(|t| {
        // join the caller that just finished: its thread-local destructors run now, while
        // every other caller is parked
        if let Some(h) = handles.get_mut(t - 1).and_then(|h| h.take()) {
            if !h.join().unwrap_or(false) {
                caller_panicked = true;
            }
        }
        state().ev(&format!("t{t} exited"));
    });
    let stats = threads::stop();
    seams::set_mode(seams::Mode::Sequential);
    out.steps = stats.steps;
    out.switches = stats.switches;
    out.schedule = stats.rle;
    out.ext_blocks = stats.ext_blocks;
    match stats.dead {
        Some(msg) => {
            // the callers of a dead execution stay parked; the process exits soon
            out.noreturn = Some(msg);
            drop(handles);
        }
        None => {
            for h in handles.into_iter().flatten() {
                if !h.join().unwrap_or(false) {
                    caller_panicked = true;
                }
            }
            if caller_panicked {
                out.harness_error = Some(format!(
                    "a caller thread panicked outside a call: {}",
                    seams::last_panic()
                ));
            }
        }
    }
    state().ev("joined");
    let fill = |o: Option<CallOut>| {
        o.unwrap_or(CallOut {
            obs: Obs::noreturn("call did not return".into()),
            records: 0,
            fault_fired: false,
            overlapped: false,
        })
    };
    let calls: Vec<Vec<CallOut>> = slots
        .lock()
        .unwrap()
        .iter()
        .map(|v| v.iter().cloned().map(fill).collect())
        .collect();
    let sentinel = if out.noreturn.is_some() {
        plan.sentinel.iter().map(|_| fill(None)).collect()
    } else {
        seams::set_seq_task(0);
        plan.sentinel
            .iter()
            .enumerate()
            .map(|(k, c)| run_call(0, k, c))
            .collect()
    };
    (calls, sentinel)
}

/// Run the plan in this process. The process must be pristine (freshly forked
/// from a worker that never called into prqlc).
pub fn run_plan_here(plan: &Plan) -> Outcome {
    seams::install();
    {
        let mut st = state();
        *st = seams::SimState::empty();
        st.log_yield_ppm = plan.log_yield_ppm;
        st.heap_ppm = if plan.heap_perturb > 0 { 30_000 } else { 0 };
        st.heap_rng = Rng::new(crate::rng::mix(plan.exec_seed, 0x4ea91));
        st.yield_rng = Rng::new(crate::rng::mix(plan.sched.seed, 0x10c));
        st.log = if plan.keep_log { Some(Vec::new()) } else { None };
        st.tasks = vec![TaskState::default(); plan.threads.len() + 1];
        st.ev(&format!("seed {} stratum {}", plan.exec_seed, plan.stratum));
    }
    log::set_max_level(level_filter(plan.log_level));
    if let Some(l) = plan.log_level {
        state().ev(&format!("fault log_level {l}"));
    }
    // simulated time from here on (1 µs per reading unless the plan says otherwise)
    seams::set_clock_step(if plan.clock_step_ns == 0 { 1_000 } else { plan.clock_step_ns });
    if plan.clock_step_ns != 0 {
        state().ev(&format!("fault clock step_ns={}", plan.clock_step_ns));
    }
    HEAP_PERTURB.store(plan.heap_perturb as u64, std::sync::atomic::Ordering::SeqCst);
    HEAP_SEED.store(plan.exec_seed, std::sync::atomic::Ordering::SeqCst);
    if plan.heap_perturb > 0 {
        state().ev(&format!("fault heap_layout blocks={}", plan.heap_perturb));
    }
    // the reference's working directory; SetCwd calls change it
    let _ = std::env::set_current_dir("/");
    seams::set_hash_base(plan.hash_base);
    match &plan.env_before {
        Some(v) => std::env::set_var("PRQL_VERSION_OVERRIDE", v),
        None => std::env::remove_var("PRQL_VERSION_OVERRIDE"),
    }
    let plan2 = plan.clone();
    // a fresh thread, so that its RandomState keys come from this plan's hash base
    let h = std::thread::Builder::new()
        .stack_size(STACK)
        .spawn(move || {
            let mut out = Outcome::default();
            out.canary = seams::canary();
            state().ev(&format!("canary {}", out.canary));
            let (calls, sentinel) = if plan2.shuttle && plan2.engine == "free" {
                run_free(&plan2, &mut out)
            } else if plan2.shuttle && plan2.engine == "threads" {
                run_threads(&plan2, &mut out)
            } else if plan2.shuttle {
                run_shuttle(&plan2, &mut out)
            } else {
                run_sequential(&plan2)
            };
            out.calls = calls;
            out.sentinel = sentinel;
            out
        })
        .expect("spawn exec thread");
    let mut out = match h.join() {
        Ok(o) => o,
        Err(_) => Outcome {
            harness_error: Some(format!("exec thread panicked: {}", seams::last_panic())),
            ..Default::default()
        },
    };
    let st = state();
    out.digest = st.digest;
    out.nevents = st.nevents;
    out.counters = st.counters.clone();
    out.counters.atomic_ops = crate::threads::ATOMIC_OPS.load(std::sync::atomic::Ordering::SeqCst);
    out.log = st.log.clone().unwrap_or_default();
    out.getrandom_calls = seams::GETRANDOM_CALLS.load(std::sync::atomic::Ordering::SeqCst);
    out.clock_reads = seams::clock_reads();
    out
}
