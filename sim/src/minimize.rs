//! Delta-debugging minimiser over Plans. A candidate is accepted only if it
//! still fails with the same kind of violation when run in fresh children.

use crate::check::{run_and_check, RefTable, Violation};
use crate::ops::Op;
use crate::plan::Plan;

pub struct Minimizer {
    pub started: std::time::Instant,
    pub wall_cap_s: u64,
    pub refs: RefTable,
    pub evals: usize,
    pub budget: usize,
    pub target_classes: (String, String),
    pub target_element: String,
    pub target_kind: String,
}

fn matches(m: &Minimizer, v: &Violation) -> bool {
    v.expected.class == m.target_classes.0
        && v.actual.class == m.target_classes.1
        && (v.element == m.target_element || v.op_kind == m.target_kind)
}

impl Minimizer {
    pub fn new(v: &Violation, budget: usize) -> Self {
        Minimizer {
            started: std::time::Instant::now(),
            // candidates that hang cost whole watchdog periods
            wall_cap_s: if v.actual.class == "noreturn" { 90 } else { 240 },
            refs: RefTable::default(),
            evals: 0,
            budget,
            target_classes: (v.expected.class.clone(), v.actual.class.clone()),
            target_element: v.element.clone(),
            target_kind: v.op_kind.clone(),
        }
    }

    /// Some(violation, schedule) if the plan still fails the same way.
    pub fn fails(&mut self, plan: &Plan) -> Option<(Violation, Vec<(u32, u32)>)> {
        // the wall-clock cap only bounds how far minimisation goes (hanging candidates cost a
        // full watchdog period each); whatever it returns is re-verified by replay
        if self.evals >= self.budget || (self.evals > 0 && self.started.elapsed().as_secs() > self.wall_cap_s) {
            return None;
        }
        self.evals += 1;
        if plan.threads.iter().all(|t| t.is_empty()) && plan.sentinel.is_empty() {
            return None;
        }
        // a fresh address space is the one thing the plan does not determine: the kernel
        // draws it, so a candidate that depends on it gets several attempts
        let tries = if plan.fresh_exec { 6 } else { 1 };
        for _ in 0..tries {
            match run_and_check(plan, &mut self.refs) {
                Ok((out, res)) => {
                    if res.harness_error.is_some() {
                        return None;
                    }
                    if let Some(v) = res.violations.into_iter().find(|v| matches(self, v)) {
                        return Some((v, out.schedule));
                    }
                }
                Err(_) => return None,
            }
        }
        None
    }

    fn try_accept(&mut self, cur: &mut Plan, cand: Plan) -> bool {
        if cand == *cur {
            return false;
        }
        if self.fails(&cand).is_some() {
            *cur = cand;
            true
        } else {
            false
        }
    }

    pub fn minimize(&mut self, start: &Plan) -> Plan {
        let mut cur = start.clone();
        cur.keep_log = false;
        loop {
            let before = cur.clone();
            self.pass_structure(&mut cur);
            self.pass_faults(&mut cur);
            self.pass_hash(&mut cur);
            self.pass_opts(&mut cur);
            self.pass_text(&mut cur);
            if cur.shuttle {
                self.pass_schedule(&mut cur);
            }
            if cur == before || self.evals >= self.budget {
                break;
            }
        }
        cur
    }

    /// Long histories: remove the unjudged filler calls in halves, quarters, ... before
    /// anything is tried call by call.
    fn pass_fillers(&mut self, cur: &mut Plan) {
        for t in 0..cur.threads.len() {
            let nwarm = cur.threads[t].iter().filter(|c| c.warm).count();
            if nwarm < 8 {
                continue;
            }
            // all of them at once
            let mut c = cur.clone();
            c.threads[t].retain(|x| !x.warm);
            if self.try_accept(cur, c) {
                continue;
            }
            let mut chunk = nwarm / 2;
            while chunk >= 4 {
                let mut start = 0;
                loop {
                    let idx: Vec<usize> = cur.threads[t]
                        .iter()
                        .enumerate()
                        .filter(|(_, x)| x.warm)
                        .map(|(i, _)| i)
                        .collect();
                    if start >= idx.len() {
                        break;
                    }
                    let drop: Vec<usize> = idx[start..(start + chunk).min(idx.len())].to_vec();
                    let mut c = cur.clone();
                    let mut k = 0;
                    c.threads[t].retain(|_| {
                        let keep = !drop.contains(&k);
                        k += 1;
                        keep
                    });
                    if !self.try_accept(cur, c) {
                        start += chunk;
                    }
                    if self.evals >= self.budget {
                        return;
                    }
                }
                chunk /= 2;
            }
        }
    }

    fn pass_structure(&mut self, cur: &mut Plan) {
        self.pass_fillers(cur);
        // sequential instead of interleaved
        if cur.shuttle {
            let mut c = cur.clone();
            c.shuttle = false;
            c.sched = Default::default();
            c.log_yield_ppm = 0;
            self.try_accept(cur, c);
        }
        // drop whole threads
        let mut t = 0;
        while t < cur.threads.len() {
            if cur.threads.len() > 1 || !cur.sentinel.is_empty() {
                let mut c = cur.clone();
                c.threads.remove(t);
                if self.try_accept(cur, c) {
                    continue;
                }
            }
            t += 1;
        }
        // drop the sentinel phase, then single sentinel calls
        if !cur.sentinel.is_empty() {
            let mut c = cur.clone();
            c.sentinel.clear();
            self.try_accept(cur, c);
        }
        let mut k = cur.sentinel.len();
        while k > 0 {
            k -= 1;
            let mut c = cur.clone();
            c.sentinel.remove(k);
            self.try_accept(cur, c);
        }
        // drop calls, last first
        for t in 0..cur.threads.len() {
            let mut k = cur.threads[t].len();
            while k > 0 {
                k -= 1;
                if k >= cur.threads[t].len() {
                    continue;
                }
                if cur.threads[t][k].warm && cur.threads[t].len() > 40 {
                    // fillers of a long history were removed in chunks (pass_fillers)
                    continue;
                }
                let mut c = cur.clone();
                c.threads[t].remove(k);
                self.try_accept(cur, c);
            }
        }
        let mut c = cur.clone();
        c.threads.retain(|t| !t.is_empty());
        if c.threads.len() != cur.threads.len() {
            self.try_accept(cur, c);
        }
    }

    fn pass_faults(&mut self, cur: &mut Plan) {
        if cur.fresh_exec {
            let mut c = cur.clone();
            c.fresh_exec = false;
            self.try_accept(cur, c);
        }
        if cur.env_before.is_some() {
            let mut c = cur.clone();
            c.env_before = None;
            self.try_accept(cur, c);
        }
        if cur.clock_step_ns > 0 {
            let mut c = cur.clone();
            c.clock_step_ns = 0;
            self.try_accept(cur, c);
        }
        if cur.heap_perturb > 0 {
            let mut c = cur.clone();
            c.heap_perturb = 0;
            self.try_accept(cur, c);
        }
        if cur.log_level.is_some() {
            let mut c = cur.clone();
            c.log_level = None;
            self.try_accept(cur, c);
        }
        {
            let n = Self::each_call_mut(&mut cur.clone()).len();
            for idx in 0..n {
                if Self::each_call_mut(&mut cur.clone())[idx].log_level.is_some() {
                    let mut c = cur.clone();
                    Self::each_call_mut(&mut c)[idx].log_level = None;
                    self.try_accept(cur, c);
                }
            }
        }
        // preemption granularities the violation does not need
        if cur.alloc_yield_mean > 0 {
            let mut c = cur.clone();
            c.alloc_yield_mean = 0;
            self.try_accept(cur, c);
        }
        if cur.block_yield_mean > 0 {
            let mut c = cur.clone();
            c.block_yield_mean = 0;
            self.try_accept(cur, c);
        }
        if cur.atomic_yield_mean > 0 {
            let mut c = cur.clone();
            c.atomic_yield_mean = 0;
            self.try_accept(cur, c);
        }
        if cur.atomic_hold_mean > 0 {
            let mut c = cur.clone();
            c.atomic_hold_mean = 0;
            c.atomic_focus = 0;
            self.try_accept(cur, c);
        }
        let n = Self::each_call_mut(&mut cur.clone()).len();
        for idx in 0..n {
            let (has_panic, has_session) = {
                let mut tmp = cur.clone();
                let calls = Self::each_call_mut(&mut tmp);
                (calls[idx].panic_at.is_some(), calls[idx].session)
            };
            if has_panic {
                let mut c = cur.clone();
                Self::each_call_mut(&mut c)[idx].panic_at = None;
                self.try_accept(cur, c);
            }
            if has_session {
                let mut c = cur.clone();
                Self::each_call_mut(&mut c)[idx].session = false;
                self.try_accept(cur, c);
            }
        }
        if cur.log_yield_ppm != 0 && cur.shuttle {
            let mut c = cur.clone();
            c.log_yield_ppm = 0;
            self.try_accept(cur, c);
        }
    }

    fn pass_hash(&mut self, cur: &mut Plan) {
        if cur.hash_base != 0 {
            let mut c = cur.clone();
            c.hash_base = 0;
            if !self.try_accept(cur, c) {
                for b in 1..=8u64 {
                    let mut c = cur.clone();
                    c.hash_base = b;
                    if self.try_accept(cur, c) {
                        break;
                    }
                }
            }
        }
        for t in 0..cur.threads.len() {
            for k in 0..cur.threads[t].len() {
                if let Some(hb) = cur.threads[t][k].hash_base {
                    let mut c = cur.clone();
                    c.threads[t][k].hash_base = None;
                    if self.try_accept(cur, c) {
                        continue;
                    }
                    if hb > 8 {
                        for b in 0..=8u64 {
                            let mut c = cur.clone();
                            c.threads[t][k].hash_base = Some(b);
                            if self.try_accept(cur, c) {
                                break;
                            }
                        }
                    }
                }
            }
        }
    }

    fn each_call_mut(plan: &mut Plan) -> Vec<&mut crate::plan::Call> {
        let mut v: Vec<&mut crate::plan::Call> = Vec::new();
        for t in plan.threads.iter_mut() {
            for c in t.iter_mut() {
                v.push(c);
            }
        }
        for c in plan.sentinel.iter_mut() {
            v.push(c);
        }
        v
    }

    fn pass_opts(&mut self, cur: &mut Plan) {
        let n = Self::each_call_mut(&mut cur.clone()).len();
        for idx in 0..n {
            for field in 0..5 {
                let mut c = cur.clone();
                {
                    let mut calls = Self::each_call_mut(&mut c);
                    let call = &mut calls[idx];
                    if field == 4 {
                        // simpler entry point
                        let simpler = match &call.op {
                            Op::Staged { src, opts } | Op::StagedJson { src, opts, .. } | Op::StagedRqEdit { src, opts, .. } => Some(Op::Compile {
                                src: src.clone(),
                                opts: opts.clone(),
                            }),
                            Op::StagedSplit { src, between, opts, via_json } if *via_json || between != "from x" => {
                                Some(Op::StagedSplit {
                                    src: src.clone(),
                                    between: "from x".into(),
                                    via_json: false,
                                    opts: opts.clone(),
                                })
                            }
                            _ => None,
                        };
                        match simpler {
                            Some(o) => call.op = o,
                            None => continue,
                        }
                    } else {
                        if let Op::Project {
                            via_hashmap,
                            dups,
                            via_insert,
                            ..
                        } = &mut call.op
                        {
                            if field == 0 {
                                *via_hashmap = false;
                            }
                            if field == 1 {
                                dups.clear();
                            }
                            if field == 2 {
                                *via_insert = false;
                            }
                        }
                        match call.op.opts_mut() {
                            Some(o) => match field {
                                0 => o.format = false,
                                1 => o.sig = false,
                                2 => {
                                    o.ansi = false;
                                    o.color = false;
                                }
                                _ => o.target = "sql.any".into(),
                            },
                            None => continue,
                        }
                    }
                }
                self.try_accept(cur, c);
            }
        }
    }

    /// ddmin on a list: try removing chunks, halving the chunk size.
    fn ddmin_list<T: Clone>(
        &mut self,
        cur: &mut Plan,
        items: Vec<T>,
        apply: &dyn Fn(&mut Plan, &[T]),
    ) -> Vec<T> {
        let mut items = items;
        let mut chunk = items.len().div_ceil(2).max(1);
        while !items.is_empty() {
            let mut i = 0;
            let mut removed_any = false;
            while i < items.len() && items.len() > 1 {
                let end = (i + chunk).min(items.len());
                let mut cand_items = items.clone();
                cand_items.drain(i..end);
                if cand_items.is_empty() {
                    i = end;
                    continue;
                }
                let mut c = cur.clone();
                apply(&mut c, &cand_items);
                if self.try_accept(cur, c) {
                    items = cand_items;
                    removed_any = true;
                } else {
                    i = end;
                }
                if self.evals >= self.budget {
                    return items;
                }
            }
            if chunk == 1 && !removed_any {
                break;
            }
            if !removed_any {
                chunk = (chunk / 2).max(1);
            }
        }
        items
    }

    fn pass_text(&mut self, cur: &mut Plan) {
        let n = Self::each_call_mut(&mut cur.clone()).len();
        for idx in 0..n {
            let op = {
                let mut tmp = cur.clone();
                let calls = Self::each_call_mut(&mut tmp);
                calls[idx].op.clone()
            };
            match &op {
                Op::Project { files, order, .. } => {
                    // drop files (keeping order a permutation)
                    let pairs: Vec<(String, String)> = order.iter().map(|&i| files[i].clone()).collect();
                    let identity_sorted = {
                        let mut o = order.clone();
                        o.sort();
                        o == *order
                    };
                    let _ = identity_sorted;
                    self.ddmin_list(cur, pairs, &|p: &mut Plan, keep: &[(String, String)]| {
                        let mut calls = Self::each_call_mut(p);
                        if let Op::Project { files, order, dups, .. } = &mut calls[idx].op {
                            dups.clear();
                            // canonical file list = sorted by path; order = the kept enumeration
                            let mut canon: Vec<(String, String)> = keep.to_vec();
                            canon.sort();
                            *order = keep.iter().map(|k| canon.iter().position(|c| c == k).unwrap()).collect();
                            *files = canon;
                        }
                    });
                    // shrink each file by lines
                    let nfiles = {
                        let mut tmp = cur.clone();
                        let calls = Self::each_call_mut(&mut tmp);
                        match &calls[idx].op {
                            Op::Project { files, .. } => files.len(),
                            _ => 0,
                        }
                    };
                    for f in 0..nfiles {
                        let lines: Vec<String> = {
                            let mut tmp = cur.clone();
                            let calls = Self::each_call_mut(&mut tmp);
                            match &calls[idx].op {
                                Op::Project { files, .. } => files[f].1.lines().map(|s| s.to_string()).collect(),
                                _ => vec![],
                            }
                        };
                        self.ddmin_list(cur, lines, &|p: &mut Plan, keep: &[String]| {
                            let mut calls = Self::each_call_mut(p);
                            if let Op::Project { files, .. } = &mut calls[idx].op {
                                if f < files.len() {
                                    files[f].1 = keep.join("\n") + "\n";
                                }
                            }
                        });
                    }
                }
                Op::Cli { files, .. } => {
                    // enumeration order and hash seed back to the reference's, one at a time
                    for field in 0..3 {
                        let mut c = cur.clone();
                        {
                            let mut calls = Self::each_call_mut(&mut c);
                            if let Op::Cli {
                                readdir_seed,
                                hash_base,
                                debug_log,
                                ..
                            } = &mut calls[idx].op
                            {
                                match field {
                                    0 => *readdir_seed = 0,
                                    1 => *hash_base = 0,
                                    _ => *debug_log = false,
                                }
                            }
                        }
                        if c != *cur {
                            self.try_accept(cur, c);
                        }
                    }
                    self.ddmin_list(cur, files.clone(), &|p: &mut Plan, keep: &[(String, String)]| {
                        let mut calls = Self::each_call_mut(p);
                        if let Op::Cli { files, .. } = &mut calls[idx].op {
                            *files = keep.to_vec();
                        }
                    });
                    let nfiles = {
                        let mut tmp = cur.clone();
                        let calls = Self::each_call_mut(&mut tmp);
                        match &calls[idx].op {
                            Op::Cli { files, .. } => files.len(),
                            _ => 0,
                        }
                    };
                    for f in 0..nfiles {
                        let lines: Vec<String> = {
                            let mut tmp = cur.clone();
                            let calls = Self::each_call_mut(&mut tmp);
                            match &calls[idx].op {
                                Op::Cli { files, .. } => files[f].1.lines().map(|s| s.to_string()).collect(),
                                _ => vec![],
                            }
                        };
                        self.ddmin_list(cur, lines, &|p: &mut Plan, keep: &[String]| {
                            let mut calls = Self::each_call_mut(p);
                            if let Op::Cli { files, .. } = &mut calls[idx].op {
                                if f < files.len() {
                                    files[f].1 = keep.join("\n") + "\n";
                                }
                            }
                        });
                    }
                }
                o => {
                    let Some(src) = o.src() else { continue };
                    // lines first, then pipe segments of what is left
                    let lines: Vec<String> = src.lines().map(|s| s.to_string()).collect();
                    self.ddmin_list(cur, lines, &|p: &mut Plan, keep: &[String]| {
                        let mut calls = Self::each_call_mut(p);
                        if let Some(s) = calls[idx].op.src_mut() {
                            *s = keep.join("\n");
                        }
                    });
                    let src2 = {
                        let mut tmp = cur.clone();
                        let calls = Self::each_call_mut(&mut tmp);
                        calls[idx].op.src().unwrap_or("").to_string()
                    };
                    if src2.lines().count() <= 2 && src2.contains(" | ") {
                        let segs: Vec<String> = src2.split(" | ").map(|s| s.to_string()).collect();
                        self.ddmin_list(cur, segs, &|p: &mut Plan, keep: &[String]| {
                            let mut calls = Self::each_call_mut(p);
                            if let Some(s) = calls[idx].op.src_mut() {
                                *s = keep.join(" | ");
                            }
                        });
                    }
                }
            }
        }
    }

    /// Fewest context switches: search scheduler seeds with ever lower switch
    /// probability, then pin the schedule that was taken.
    fn pass_schedule(&mut self, cur: &mut Plan) {
        let mut best: Option<(usize, Plan)> = None;
        if let Some((_, sched)) = self.fails(cur) {
            best = Some((sched.len(), cur.clone()));
        }
        for ppm in [200u32, 1_000, 5_000, 20_000, 100_000] {
            for s in 0..12u64 {
                if self.evals >= self.budget {
                    break;
                }
                let mut c = cur.clone();
                c.sched.explicit = None;
                c.sched.switch_ppm = ppm;
                c.sched.seed = crate::rng::mix(cur.sched.seed, ppm as u64 * 131 + s);
                if let Some((_, sched)) = self.fails(&c) {
                    if best.as_ref().is_none_or(|(n, _)| sched.len() < *n) {
                        best = Some((sched.len(), c));
                    }
                }
            }
            if best.as_ref().is_some_and(|(n, _)| *n <= 8) {
                break;
            }
        }
        if let Some((_, mut p)) = best {
            // pin the exact schedule in the replay file
            if let Some((_, sched)) = self.fails(&p) {
                let mut pinned = p.clone();
                pinned.sched.explicit = Some(sched);
                if self.fails(&pinned).is_some() {
                    p = pinned;
                }
            }
            *cur = p;
        }
    }
}
