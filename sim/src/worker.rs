//! A worker is a single-threaded process that owns a disjoint share of the
//! execution indices of every stratum. It never calls into prqlc itself; each
//! execution (and each reference lookup) happens in a forked pristine child.

use std::io::Write;

use serde::{Deserialize, Serialize};

use crate::check::{classify_noreturn, mk_violation, RefTable, Violation};
use crate::forkrun::run_forked;
use crate::gen::{Corpus, Gen};
use crate::ops::{Obs, Op, Opts};
use crate::plan::{Outcome, Plan};
use crate::rng::{fnv, fnv_update, mix3, Rng};
use crate::seams::Counters;

#[derive(Serialize, Deserialize, Clone, Debug, Default)]
pub struct Tier {
    pub harvest_gen: u64,
    pub a: u64,
    pub a_k: usize,
    pub b: u64,
    pub c: u64,
}

#[derive(Serialize, Deserialize, Clone, Debug, Default)]
pub struct FaultCounts {
    pub hash_reseed: u64,
    pub enum_permute: u64,
    pub preempt: u64,
    pub stall: u64,
    pub panic_real: u64,
    pub panic_injected_planned: u64,
    pub panic_injected_fired: u64,
    pub failed_call: u64,
    pub env_change: u64,
    pub debug_session: u64,
    #[serde(default)]
    pub heap_layout: u64,
    #[serde(default)]
    pub clock: u64,
    #[serde(default)]
    pub log_level: u64,
    #[serde(default)]
    pub address_space: u64,
    /// calls that ran the real command-line binary as a process of its own
    #[serde(default)]
    pub cli_process: u64,
    /// ... of which with a permuted directory enumeration order (readdir seam)
    #[serde(default)]
    pub cli_readdir_permuted: u64,
}

impl FaultCounts {
    pub fn add(&mut self, o: &FaultCounts) {
        self.hash_reseed += o.hash_reseed;
        self.enum_permute += o.enum_permute;
        self.preempt += o.preempt;
        self.stall += o.stall;
        self.panic_real += o.panic_real;
        self.panic_injected_planned += o.panic_injected_planned;
        self.panic_injected_fired += o.panic_injected_fired;
        self.failed_call += o.failed_call;
        self.env_change += o.env_change;
        self.debug_session += o.debug_session;
        self.heap_layout += o.heap_layout;
        self.clock += o.clock;
        self.log_level += o.log_level;
        self.address_space += o.address_space;
        self.cli_process += o.cli_process;
        self.cli_readdir_permuted += o.cli_readdir_permuted;
    }
    pub fn any(&self) -> bool {
        self.hash_reseed
            + self.enum_permute
            + self.preempt
            + self.panic_real
            + self.panic_injected_fired
            + self.failed_call
            + self.env_change
            + self.debug_session
            > 0
    }
}

#[derive(Serialize, Deserialize, Clone, Debug, Default)]
pub struct ExecReport {
    pub stratum: String,
    pub i: u64,
    pub digest: u64,
    pub ctxkey: u64,
    pub schedkey: u64,
    pub canary: String,
    pub calls: u64,
    pub judged: u64,
    pub unjudged: u64,
    pub nontrivial: bool,
    pub steps: u64,
    pub switches: u64,
    pub nevents: u64,
    pub counters: Counters,
    pub faults: FaultCounts,
    pub sentinel_after_panic: bool,
    pub op_kinds: Vec<String>,
    pub viol: Vec<Violation>,
    #[serde(default)]
    pub plan: Option<Plan>,
    #[serde(default)]
    pub herr: Option<String>,
    /// determinism re-execution: None = not re-run, Some(true) = identical
    #[serde(default)]
    pub rerun_same: Option<bool>,
    #[serde(default)]
    pub sample: Option<serde_json::Value>,
    pub refs_computed: u64,
    pub refs_crashed: u64,
    /// the plan was meant to be interleaved but had to be run with its callers one after
    /// another, because the interleaved run blocked the simulator's OS thread
    #[serde(default)]
    pub degraded: bool,
    #[serde(default)]
    pub engine: String,
    #[serde(default)]
    pub digest_mismatch: bool,
    #[serde(default)]
    pub free_attempts_hit: bool,
    #[serde(default)]
    pub ext_blocks: u64,
    /// FNV-64 of every distinct program text / file tree this execution compiled
    #[serde(default)]
    pub prog_keys: Vec<u64>,
}

#[derive(Serialize, Deserialize, Clone, Debug)]
pub struct HarvestReport {
    pub h: u64,
    pub src: String,
    pub class: String,
}

fn emit<T: Serialize>(x: &T) {
    let s = serde_json::to_string(x).unwrap();
    let out = std::io::stdout();
    let mut l = out.lock();
    let _ = l.write_all(s.as_bytes());
    let _ = l.write_all(b"\n");
    let _ = l.flush();
}

pub fn ctx_key(plan: &Plan, out: &Outcome) -> u64 {
    let mut h = fnv(serde_json::to_string(&plan.threads).unwrap().as_bytes());
    h = fnv_update(h, serde_json::to_string(&plan.sentinel).unwrap().as_bytes());
    h = fnv_update(h, &plan.hash_base.to_le_bytes());
    h = fnv_update(h, plan.env_before.as_deref().unwrap_or("").as_bytes());
    h = fnv_update(h, serde_json::to_string(&out.schedule).unwrap().as_bytes());
    h
}

pub fn harvest_program(gen: &Gen, h: u64) -> Option<String> {
    let n = gen.corpus.programs.len() as u64;
    if h < n {
        Some(gen.corpus.programs[h as usize].clone())
    } else {
        let mut r = Rng::new(mix3(gen.verif_seed, 0x4a, h));
        Some(match r.below(2) {
            0 => crate::gen::splice_program(&mut r, gen.corpus),
            _ => crate::gen::gen_program(&mut r, gen.corpus),
        })
    }
}

/// Phase H: find inputs that panic on the current tree (real "panicked call" histories).
pub fn harvest(gen: &Gen, tier: &Tier, w: u64, nw: u64) {
    let mut refs = RefTable::default();
    let total = gen.corpus.programs.len() as u64 + tier.harvest_gen;
    let mut h = w;
    while h < total {
        if let Some(src) = harvest_program(gen, h) {
            let op = Op::Compile {
                src: src.clone(),
                opts: Opts::plain("sql.any"),
            };
            if let Some(o) = refs.get(&op, &None) {
                if o.class == "panic" {
                    emit(&HarvestReport {
                        h,
                        src,
                        class: o.class,
                    });
                }
            }
        }
        h += nw;
    }
}

fn plan_faults(plan: &Plan, out: &Outcome, refs: &mut RefTable) -> (FaultCounts, bool) {
    let mut f = FaultCounts::default();
    let mut any_panic = false;
    let mut env = plan.env_before.clone();
    if plan.env_before.is_some() {
        f.env_change += 1;
    }
    if plan.heap_perturb > 0 {
        f.heap_layout += 1;
    }
    if plan.fresh_exec {
        f.address_space += 1;
    }
    if plan.clock_step_ns > 0 && out.clock_reads > 0 {
        f.clock += 1;
    }
    if plan.log_level.is_some() || plan.threads.iter().flatten().any(|c| c.log_level.is_some()) {
        f.log_level += 1;
    }
    let base_nonref = plan.hash_base != 0;
    let all = plan
        .threads
        .iter()
        .enumerate()
        .flat_map(|(t, cs)| cs.iter().enumerate().map(move |(k, c)| (Some(t), k, c)))
        .chain(plan.sentinel.iter().enumerate().map(|(k, c)| (None, k, c)));
    for (t, k, c) in all {
        let co = match t {
            Some(t) => &out.calls[t][k],
            None => &out.sentinel[k],
        };
        match &c.op {
            Op::SetEnv { value } => {
                env = value.clone();
                f.env_change += 1;
                continue;
            }
            Op::SetCwd { .. } => {
                f.env_change += 1;
                continue;
            }
            Op::Project {
                order,
                via_hashmap,
                dups,
                via_insert,
                sibling_first,
                ..
            } => {
                let ident = order.iter().enumerate().all(|(i, o)| i == *o);
                if !ident || *via_hashmap || !dups.is_empty() || *via_insert || *sibling_first {
                    f.enum_permute += 1;
                }
            }
            Op::Cli { readdir_seed, .. } => {
                f.cli_process += 1;
                if *readdir_seed != 0 {
                    f.enum_permute += 1;
                    f.cli_readdir_permuted += 1;
                }
            }
            _ => {}
        }
        match c.hash_base {
            Some(b) if b != 0 => f.hash_reseed += 1,
            None if base_nonref => f.hash_reseed += 1,
            _ => {}
        }
        if c.panic_at.is_some() {
            f.panic_injected_planned += 1;
        }
        if co.fault_fired {
            f.panic_injected_fired += 1;
            any_panic = true;
        } else if co.obs.class == "panic" {
            if let Some(r) = refs.get(&c.op, &env) {
                if r.class == "panic" {
                    f.panic_real += 1;
                    any_panic = true;
                }
            }
        }
        if co.obs.class == "err" {
            f.failed_call += 1;
        }
        if c.session {
            f.debug_session += 1;
        }
    }
    f.preempt = out.switches.saturating_sub(plan.threads.len() as u64 + 1);
    f.stall = out.counters.rw_contended + out.counters.once_contended;
    (f, any_panic)
}

/// Remove calls whose reference context kills the process (stack overflow):
/// nothing survives such a call, so it cannot be part of a multi-call history.
fn drop_unusable_calls(plan: &mut Plan, refs: &mut RefTable) -> u64 {
    let mut dropped = 0;
    let mut env = plan.env_before.clone();
    for t in plan.threads.iter_mut() {
        let mut keep = Vec::new();
        for c in t.drain(..) {
            if let Op::SetEnv { value } = &c.op {
                env = value.clone();
                keep.push(c);
                continue;
            }
            if let Op::SetCwd { .. } = &c.op {
                keep.push(c);
                continue;
            }
            if c.warm {
                // history fillers are not compared, so their reference is not needed up
                // front; should the execution die, `refs_all_alive` looks at them then
                keep.push(c);
                continue;
            }
            if refs.get(&c.op, &env).is_some() {
                keep.push(c);
            } else {
                dropped += 1;
            }
        }
        *t = keep;
    }
    dropped
}

pub struct WorkerCfg {
    pub verif_seed: u64,
    pub tier: Tier,
    pub w: u64,
    pub nw: u64,
    pub panickers: Vec<String>,
    pub samples_per_stratum: u64,
}

fn run_one(plan: &Plan, refs: &mut RefTable, rerun: bool, want_sample: bool) -> ExecReport {
    let mut rep = ExecReport {
        stratum: plan.stratum.clone(),
        ..Default::default()
    };
    let mut plan = plan.clone();
    if want_sample {
        plan.keep_log = true;
    }
    let (out, res) = match crate::check::run_and_check(&plan, refs) {
        Ok(x) => x,
        Err(e) => {
            rep.herr = Some(e);
            rep.plan = Some(plan);
            return rep;
        }
    };
    if out.calls.is_empty() && !plan.threads.is_empty() {
        // the child died or never finished: there is no outcome to take statistics from
        rep.unjudged = res.unjudged as u64;
        rep.judged = res.judged as u64;
        rep.viol = res.violations;
        if !rep.viol.is_empty() {
            rep.plan = Some(plan);
        }
        return rep;
    }
    if let Some(e) = res.harness_error {
        rep.herr = Some(e);
        rep.plan = Some(plan);
        return rep;
    }
    rep.digest = out.digest;
    rep.ctxkey = ctx_key(&plan, &out);
    rep.schedkey = fnv(serde_json::to_string(&out.schedule).unwrap().as_bytes());
    rep.canary = out.canary.clone();
    rep.calls = (plan.threads.iter().map(|t| t.len()).sum::<usize>() + plan.sentinel.len()) as u64;
    rep.judged = res.judged as u64;
    rep.unjudged = res.unjudged as u64;
    rep.steps = out.steps;
    rep.switches = out.switches;
    rep.nevents = out.nevents;
    rep.counters = out.counters.clone();
    rep.ext_blocks = out.ext_blocks;
    let (faults, any_panic) = plan_faults(&plan, &out, refs);
    rep.sentinel_after_panic = any_panic && !plan.sentinel.is_empty();
    rep.nontrivial = rep.calls >= 2 || faults.any();
    rep.faults = faults;
    let mut kinds: Vec<String> = plan
        .threads
        .iter()
        .flatten()
        .chain(plan.sentinel.iter())
        .map(|c| c.op.kind().to_string())
        .collect();
    kinds.sort();
    kinds.dedup();
    rep.op_kinds = kinds;
    let mut pk: Vec<u64> = plan
        .threads
        .iter()
        .flatten()
        .chain(plan.sentinel.iter())
        .filter_map(|c| match &c.op {
            Op::Project { files, .. } => Some(fnv(serde_json::to_string(files).unwrap().as_bytes())),
            o => o.src().map(|s| fnv(s.as_bytes())),
        })
        .collect();
    pk.sort();
    pk.dedup();
    rep.prog_keys = pk;
    rep.viol = res.violations;
    if out.noreturn.as_deref().and_then(classify_noreturn).is_some() {
        // already a violation
    }
    if rerun && rep.viol.is_empty() {
        match run_forked(&plan, crate::check::plan_timeout_ms(&plan)) {
            Ok(o2) => {
                let same_out = serde_json::to_string(&o2.calls.iter().flatten().map(|c| &c.obs).collect::<Vec<_>>()).unwrap()
                    == serde_json::to_string(&out.calls.iter().flatten().map(|c| &c.obs).collect::<Vec<_>>()).unwrap()
                    && serde_json::to_string(&o2.sentinel.iter().map(|c| &c.obs).collect::<Vec<_>>()).unwrap()
                        == serde_json::to_string(&out.sentinel.iter().map(|c| &c.obs).collect::<Vec<_>>()).unwrap();
                if !same_out {
                    // identical seed, identical plan, different bytes: the code depends on
                    // something that is not behind a seam
                    let dummy = Op::SetEnv { value: None };
                    let mut v = mk_violation(
                        "execution",
                        usize::MAX,
                        0,
                        &dummy,
                        &Obs::ok("identical outputs for identical seeds".into()),
                        &Obs::err("outputs differ between two identically seeded executions".into()),
                    );
                    v.element = "unseamed-nondeterminism".into();
                    v.op_kind = "execution".into();
                    rep.viol.push(v);
                    rep.rerun_same = Some(false);
                } else if o2.digest != out.digest {
                    // Same outputs, different event order: something in the process runs
                    // outside the simulator's control (the library started threads of its
                    // own, say). Not a violation by itself and not a reason to stop; counted.
                    rep.rerun_same = Some(false);
                    rep.digest_mismatch = true;
                } else {
                    rep.rerun_same = Some(true);
                }
            }
            Err(e) => rep.herr = Some(format!("re-execution failed: {e:?}")),
        }
    }
    if !rep.viol.is_empty() || rep.herr.is_some() {
        rep.plan = Some(plan.clone());
    }
    if want_sample {
        let outcomes: Vec<Vec<serde_json::Value>> = out
            .calls
            .iter()
            .map(|t| {
                t.iter()
                    .map(|c| {
                        serde_json::json!({
                            "class": c.obs.class,
                            "text_head": c.obs.text.chars().take(160).collect::<String>(),
                            "records": c.records,
                            "fault_fired": c.fault_fired,
                            "overlapped": c.overlapped,
                        })
                    })
                    .collect()
            })
            .collect();
        let mut p = plan.clone();
        p.keep_log = false;
        rep.sample = Some(serde_json::json!({
            "plan": p,
            "schedule_rle_head": out.schedule.iter().take(40).collect::<Vec<_>>(),
            "schedule_rle_len": out.schedule.len(),
            "event_log_head": out.log.iter().take(40).collect::<Vec<_>>(),
            "events": out.nevents,
            "outcomes": outcomes,
            "sentinel": out.sentinel.iter().map(|c| c.obs.class.clone()).collect::<Vec<_>>(),
        }));
    }
    rep
}

pub fn work(gen: &Gen, cfg: &WorkerCfg) {
    let mut refs = RefTable::default();
    for (stratum, total) in [("A", cfg.tier.a), ("B", cfg.tier.b), ("C", cfg.tier.c)] {
        let mut i = cfg.w;
        let mut watchdogs = 0u32;
        let mut noreturns = 0u32;
        while i < total {
            let mut plan = match stratum {
                "A" => gen.plan_a(i, cfg.tier.a_k),
                "B" => gen.plan_b(i, &cfg.panickers),
                _ => gen.plan_c(i, &cfg.panickers),
            };
            let before = (refs.computed, refs.crashed);
            if stratum != "A" {
                drop_unusable_calls(&mut plan, &mut refs);
            }
            if noreturns >= 2 {
                // two executions of this stratum already failed to return on this worker and
                // were reported; every further one would cost another two watchdog periods
                emit(&ExecReport {
                    stratum: stratum.to_string(),
                    i,
                    herr: Some("skipped: two executions of this stratum did not return on this worker (reported as violations)".into()),
                    ..Default::default()
                });
                i += cfg.nw;
                continue;
            }
            let rerun = i % 50 == 7;
            let want_sample = i < cfg.samples_per_stratum;
            let mut degraded = false;
            if plan.shuttle && watchdogs >= 2 {
                // The interleaved run blocked the simulator's OS thread twice already on this
                // worker (a blocking primitive the shadow locks do not model is held across a
                // scheduling point): every further attempt would cost a full watchdog period.
                // Run the callers one after another instead — history and hash-seed effects
                // are still checked, interleavings are not — and say so in the report.
                plan.shuttle = false;
                degraded = true;
            }
            let mut rep = run_one(&plan, &mut refs, rerun, want_sample);
            if plan.shuttle && rep.herr.as_deref().is_some_and(|e| e.starts_with("watchdog")) {
                if let Ok(dir) = std::env::var("VERIF_DUMP_WATCHDOG") {
                    let _ = std::fs::create_dir_all(&dir);
                    let _ = std::fs::write(
                        format!("{dir}/watchdog-{stratum}{i}.json"),
                        serde_json::to_string_pretty(&plan).unwrap(),
                    );
                }
                watchdogs += 1;
                plan.shuttle = false;
                degraded = true;
                rep = run_one(&plan, &mut refs, false, false);
            }
            if rep.viol.iter().any(|v| v.element == "no-return") {
                noreturns += 1;
            }
            if degraded && rep.viol.is_empty() && rep.herr.is_none() {
                // Fallback (not simulation): a few free-running attempts with real threads.
                // An output that differs from the reference is real however it was scheduled.
                let mut free = plan.clone();
                free.shuttle = true;
                free.engine = "free".into();
                free.sched = Default::default();
                for _ in 0..3 {
                    let r2 = run_one(&free, &mut refs, false, false);
                    if !r2.viol.is_empty() {
                        rep.viol = r2.viol;
                        rep.plan = Some(free.clone());
                        rep.free_attempts_hit = true;
                        break;
                    }
                }
            }
            rep.degraded = degraded;
            rep.engine = if plan.engine.is_empty() { "shuttle".into() } else { plan.engine.clone() };
            rep.stratum = stratum.to_string();
            rep.i = i;
            rep.refs_computed = refs.computed - before.0;
            rep.refs_crashed = refs.crashed - before.1;
            emit(&rep);
            i += cfg.nw;
        }
    }
}

pub fn load_corpus() -> Result<Corpus, String> {
    let dir = std::env::var("VERIF_CORPUS").unwrap_or_else(|_| format!("{}/corpus", crate::verif_root()));
    Corpus::load(&dir)
}
