//! Atomic-operation seam. The two library crates are compiled with LLVM's ThreadSanitizer
//! *instrumentation pass* restricted to atomics (sim/rustc-wrap.sh: `-Cpasses=tsan`, memory
//! accesses / function entry-exit / mem-intrinsics off). The pass replaces every atomic
//! load, store, read-modify-write, compare-exchange and fence in those crates — including
//! the fast paths of std's `Mutex`, `RwLock`, `OnceLock`, `Arc` and `Once`, which are
//! `#[inline]` and therefore code-generated inside the library crates — by a call to
//! `__tsan_atomic*`. No sanitizer runtime is linked; the simulator defines that family here:
//! each function first offers the scheduler a scheduling point (threads.rs `atomic_point`),
//! then performs the operation for real (sequentially consistent — never weaker than asked).
//!
//! In safe Rust two threads can communicate only through atomics, locks built from atomics,
//! or a dependency's internals, so "before every atomic operation of library code" is the
//! complete set of places where the order of two threads can matter inside those crates.

#![allow(clippy::missing_safety_doc)]

use std::sync::atomic::Ordering::SeqCst;
use std::sync::atomic::{AtomicU16, AtomicU32, AtomicU64, AtomicU8};

use crate::threads::atomic_point;

macro_rules! tsan_family {
    ($ty:ty, $at:ty, $load:ident, $store:ident, $xchg:ident, $add:ident, $sub:ident, $and:ident,
     $or:ident, $xor:ident, $nand:ident, $cas_val:ident, $cas_strong:ident, $cas_weak:ident) => {
        #[no_mangle]
        pub unsafe extern "C" fn $load(a: *const $ty, _mo: i32) -> $ty {
            atomic_point(a as usize, false);
            (*(a as *const $at)).load(SeqCst)
        }
        #[no_mangle]
        pub unsafe extern "C" fn $store(a: *mut $ty, v: $ty, _mo: i32) {
            atomic_point(a as usize, true);
            (*(a as *const $at)).store(v, SeqCst)
        }
        #[no_mangle]
        pub unsafe extern "C" fn $xchg(a: *mut $ty, v: $ty, _mo: i32) -> $ty {
            atomic_point(a as usize, true);
            (*(a as *const $at)).swap(v, SeqCst)
        }
        #[no_mangle]
        pub unsafe extern "C" fn $add(a: *mut $ty, v: $ty, _mo: i32) -> $ty {
            atomic_point(a as usize, true);
            (*(a as *const $at)).fetch_add(v, SeqCst)
        }
        #[no_mangle]
        pub unsafe extern "C" fn $sub(a: *mut $ty, v: $ty, _mo: i32) -> $ty {
            atomic_point(a as usize, true);
            (*(a as *const $at)).fetch_sub(v, SeqCst)
        }
        #[no_mangle]
        pub unsafe extern "C" fn $and(a: *mut $ty, v: $ty, _mo: i32) -> $ty {
            atomic_point(a as usize, true);
            (*(a as *const $at)).fetch_and(v, SeqCst)
        }
        #[no_mangle]
        pub unsafe extern "C" fn $or(a: *mut $ty, v: $ty, _mo: i32) -> $ty {
            atomic_point(a as usize, true);
            (*(a as *const $at)).fetch_or(v, SeqCst)
        }
        #[no_mangle]
        pub unsafe extern "C" fn $xor(a: *mut $ty, v: $ty, _mo: i32) -> $ty {
            atomic_point(a as usize, true);
            (*(a as *const $at)).fetch_xor(v, SeqCst)
        }
        #[no_mangle]
        pub unsafe extern "C" fn $nand(a: *mut $ty, v: $ty, _mo: i32) -> $ty {
            atomic_point(a as usize, true);
            (*(a as *const $at)).fetch_nand(v, SeqCst)
        }
        /// returns the value found (equal to `c` iff the exchange happened)
        #[no_mangle]
        pub unsafe extern "C" fn $cas_val(a: *mut $ty, c: $ty, v: $ty, _mo: i32, _fmo: i32) -> $ty {
            atomic_point(a as usize, true);
            match (*(a as *const $at)).compare_exchange(c, v, SeqCst, SeqCst) {
                Ok(x) | Err(x) => x,
            }
        }
        #[no_mangle]
        pub unsafe extern "C" fn $cas_strong(a: *mut $ty, c: *mut $ty, v: $ty, _mo: i32, _fmo: i32) -> i32 {
            atomic_point(a as usize, true);
            match (*(a as *const $at)).compare_exchange(*c, v, SeqCst, SeqCst) {
                Ok(_) => 1,
                Err(x) => {
                    *c = x;
                    0
                }
            }
        }
        #[no_mangle]
        pub unsafe extern "C" fn $cas_weak(a: *mut $ty, c: *mut $ty, v: $ty, _mo: i32, _fmo: i32) -> i32 {
            atomic_point(a as usize, true);
            // the strong form is a legal implementation of the weak one (no spurious failure)
            match (*(a as *const $at)).compare_exchange(*c, v, SeqCst, SeqCst) {
                Ok(_) => 1,
                Err(x) => {
                    *c = x;
                    0
                }
            }
        }
    };
}

tsan_family!(
    u8, AtomicU8, __tsan_atomic8_load, __tsan_atomic8_store, __tsan_atomic8_exchange,
    __tsan_atomic8_fetch_add, __tsan_atomic8_fetch_sub, __tsan_atomic8_fetch_and,
    __tsan_atomic8_fetch_or, __tsan_atomic8_fetch_xor, __tsan_atomic8_fetch_nand,
    __tsan_atomic8_compare_exchange_val, __tsan_atomic8_compare_exchange_strong,
    __tsan_atomic8_compare_exchange_weak
);
tsan_family!(
    u16, AtomicU16, __tsan_atomic16_load, __tsan_atomic16_store, __tsan_atomic16_exchange,
    __tsan_atomic16_fetch_add, __tsan_atomic16_fetch_sub, __tsan_atomic16_fetch_and,
    __tsan_atomic16_fetch_or, __tsan_atomic16_fetch_xor, __tsan_atomic16_fetch_nand,
    __tsan_atomic16_compare_exchange_val, __tsan_atomic16_compare_exchange_strong,
    __tsan_atomic16_compare_exchange_weak
);
tsan_family!(
    u32, AtomicU32, __tsan_atomic32_load, __tsan_atomic32_store, __tsan_atomic32_exchange,
    __tsan_atomic32_fetch_add, __tsan_atomic32_fetch_sub, __tsan_atomic32_fetch_and,
    __tsan_atomic32_fetch_or, __tsan_atomic32_fetch_xor, __tsan_atomic32_fetch_nand,
    __tsan_atomic32_compare_exchange_val, __tsan_atomic32_compare_exchange_strong,
    __tsan_atomic32_compare_exchange_weak
);
tsan_family!(
    u64, AtomicU64, __tsan_atomic64_load, __tsan_atomic64_store, __tsan_atomic64_exchange,
    __tsan_atomic64_fetch_add, __tsan_atomic64_fetch_sub, __tsan_atomic64_fetch_and,
    __tsan_atomic64_fetch_or, __tsan_atomic64_fetch_xor, __tsan_atomic64_fetch_nand,
    __tsan_atomic64_compare_exchange_val, __tsan_atomic64_compare_exchange_strong,
    __tsan_atomic64_compare_exchange_weak
);

#[no_mangle]
pub unsafe extern "C" fn __tsan_atomic_thread_fence(_mo: i32) {
    atomic_point(0, false);
    std::sync::atomic::fence(SeqCst);
}

#[no_mangle]
pub unsafe extern "C" fn __tsan_atomic_signal_fence(_mo: i32) {
    std::sync::atomic::compiler_fence(SeqCst);
}
