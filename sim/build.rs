//! Makes the C binding of the repository under test (prqlc/bindings/prqlc-c, crate types
//! staticlib/cdylib only, so it cannot be a dependency) part of the simulator: its one source
//! file is copied into OUT_DIR (minus the crate-level attribute) and included as a module, so
//! that the simulator's callers can go through the real `extern "C"` entry points.
//! The repository is found through this crate's own `prqlc = { path = ... }` dependency.
use std::path::PathBuf;

fn main() {
    let manifest_dir = PathBuf::from(std::env::var("CARGO_MANIFEST_DIR").unwrap());
    let manifest = std::fs::read_to_string(manifest_dir.join("Cargo.toml")).unwrap();
    let prqlc_path = manifest
        .lines()
        .find(|l| l.trim_start().starts_with("prqlc") && l.contains("path"))
        .and_then(|l| l.split('"').nth(1))
        .expect("prqlc path dependency in Cargo.toml")
        .to_string();
    let src = PathBuf::from(&prqlc_path).join("../bindings/prqlc-c/src/lib.rs");
    println!("cargo:rerun-if-changed={}", src.display());
    println!("cargo:rerun-if-changed=build.rs");
    let out = PathBuf::from(std::env::var("OUT_DIR").unwrap()).join("prqlc_c.rs");
    let text = match std::fs::read_to_string(&src) {
        Ok(t) => t
            .lines()
            .filter(|l| !l.trim_start().starts_with("#!["))
            .collect::<Vec<_>>()
            .join("\n"),
        // a tree without the binding: the operation reports that instead of failing the build
        Err(_) => String::from("pub const MISSING: bool = true;\n"),
    };
    std::fs::write(&out, text).unwrap();
}
