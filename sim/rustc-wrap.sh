#!/bin/sh
# RUSTC_WRAPPER for the simulator's build: the two library crates under test are compiled
# with LLVM's SanitizerCoverage "trace-pc-guard" instrumentation, i.e. a call to
# __sanitizer_cov_trace_pc_guard at every basic-block edge. The simulator defines that
# function (src/threads.rs block_point) and uses it as a source of scheduling points inside
# library code that contain no allocation, lock event or log record. The same two crates
# also get LLVM's ThreadSanitizer instrumentation pass restricted to atomics: every atomic
# operation in them (including the inlined fast paths of std's Mutex/RwLock/OnceLock/Arc)
# becomes a call to __tsan_atomic*, which the simulator defines (src/atomics.rs): a
# scheduling point, then the real operation. No sanitizer runtime is linked. Dependencies
# and the simulator itself are compiled as usual.
rustc="$1"; shift
case " $* " in
  *" --crate-name prqlc "*|*" --crate-name prqlc_parser "*)
    exec "$rustc" "$@" -Cpasses=sancov-module -Cllvm-args=-sanitizer-coverage-level=3 -Cllvm-args=-sanitizer-coverage-trace-pc-guard \
      -Cpasses=tsan -Cllvm-args=-tsan-instrument-memory-accesses=0 -Cllvm-args=-tsan-instrument-func-entry-exit=0 -Cllvm-args=-tsan-instrument-memintrinsics=0 ;;
  *" --crate-name regex "*|*" --crate-name regex_automata "*|*" --crate-name colorchoice "*|*" --crate-name anstream "*|*" --crate-name once_cell "*|*" --crate-name sqlformat "*|*" --crate-name sqlparser "*|*" --crate-name chumsky "*|*" --crate-name ariadne "*|*" --crate-name stacker "*|*" --crate-name csv "*|*" --crate-name chrono "*|*" --crate-name log "*)
    # runtime dependencies through which library code could share state: atomics only
    exec "$rustc" "$@" -Cpasses=tsan -Cllvm-args=-tsan-instrument-memory-accesses=0 -Cllvm-args=-tsan-instrument-func-entry-exit=0 -Cllvm-args=-tsan-instrument-memintrinsics=0 ;;
  *)
    exec "$rustc" "$@" ;;
esac
