#!/bin/sh
# Build the simulator from files on disk only (offline).
set -e
cd "$(dirname "$0")/sim"
export CARGO_NET_OFFLINE=true
exec cargo build --offline 2>&1
