#!/bin/sh
# Build the simulator from files on disk only (offline).
set -e
cd "$(dirname "$0")/sim"
export CARGO_NET_OFFLINE=true
RUSTC_WRAPPER="$(pwd)/rustc-wrap.sh"; export RUSTC_WRAPPER
cargo build --offline 2>&1
./build-cli.sh /repo "$(pwd)/target/cli" 2>&1
